export GOFLAGS=-mod=mod
export GOPROXY=off
export GOSUMDB=off
export GOTOOLCHAIN=local

.PHONY: setup
setup: bin/gosmt

bin/gosmt: $(wildcard engine/*.go) engine/go.mod engine/go.sum
	mkdir -p bin evidence replays
	cd engine && go build -o ../bin/gosmt .
