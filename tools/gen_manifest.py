#!/usr/bin/env python3
"""Generates /verif/MANIFEST.json from tools/manifest_src.json (per-property texts)."""
import json
src = json.load(open('/verif/tools/manifest_src.json'))
props = [json.loads(l) for l in open('/verif/properties.jsonl')]
checks = []
na = []
for p in props:
    pid = p['id']
    e = src['checks'].get(pid)
    if not e or e.get('not_applicable'):
        na.append({"property_id": pid, "reason": (e or {}).get('reason', 'check not built yet in this session (solver-based harness pending); not claimed')})
        continue
    checks.append({
        "property_id": pid,
        "quick_cmd": f"bin/gosmt check {pid} --tier quick",
        "thorough_cmd": f"bin/gosmt check {pid} --tier thorough",
        "evidence_file": f"/verif/evidence/{pid}.json",
        "replay_cmd_template": "bin/gosmt replay {path}",
        "engine": "gosmt",
        "level_claimed": {"category": "model_checking", "text": e['text'], "design_ref": e.get('design_ref', f"DESIGN.md §6 {pid}")},
        "level_note": e['note'],
        "technique": e.get('technique', "bounded symbolic execution of the real Go SSA (own executor gosmt) with every branch and assertion decided by an SMT solver (z3, QF_ABVFP+UF); counterexamples replayed natively")
    })
m = {
    "version": 1,
    "setup_cmd": "make -C /verif setup",
    "hooks": {
        "guard": "verif",
        "enable": "no source change in /repo: harnesses are injected as /repo/zz_verif_*.go through go/packages Overlay (symbolic run) and go test -overlay (native replay); nothing is written into /repo",
        "baseline_off_cmd": "cd /repo && go test -vet=off -count=1 ./...",
        "source_commits": src.get('hook_commits', []),
        "add_only": True
    },
    "engines": [{"name": "gosmt", "path": "/verif/engine", "serves_properties": [c['property_id'] for c in checks],
                 "kind_free_text": "symbolic executor for go/ssa written for this task: SSA -> SMT-LIB2 terms (bit-vectors, IEEE floats, UF), path exploration by decision trail, z3 -in per worker, native replay of models"}],
    "checks": checks,
    "not_applicable": na,
    "notes": src.get('notes', '')
}
json.dump(m, open('/verif/MANIFEST.json', 'w'), indent=1)
print(len(checks), 'checks,', len(na), 'not_applicable')
