#!/usr/bin/env python3
"""Behaviour-preserving refactorings written by independent sub-agents (DESIGN.md §13.6): the checks must stay silent.

  conf.py import <worktree> <A|B|C> <id>          copy conf<A|B|C>.{diff,md} to /verif/seeded/conformant/<id>/
  conf.py verify <id> --props C01,C02 [--tier quick]   scratch copy + patch: suite must pass; each listed check must exit 0
  conf.py table
"""
import json, os, shutil, subprocess, sys, time

ENV = dict(os.environ, GOFLAGS='-mod=mod', GOPROXY='off', GOSUMDB='off', GOTOOLCHAIN='local')
BASE = '/verif/seeded/conformant'
ROOT = '/var/tmp/verif-conf'


def run(cmd, cwd=None, timeout=7200):
    p = subprocess.run(cmd, cwd=cwd, env=ENV, stdout=subprocess.PIPE, stderr=subprocess.STDOUT, text=True, timeout=timeout)
    return p.returncode, p.stdout


def main():
    a = sys.argv[1:]
    if a[0] == 'import':
        wt, ab, cid = a[1], a[2], a[3]
        d = os.path.join(BASE, cid)
        os.makedirs(d, exist_ok=True)
        shutil.copy(os.path.join(wt, f'conf{ab}.diff'), os.path.join(d, 'patch.diff'))
        if os.path.exists(os.path.join(wt, f'conf{ab}.md')):
            shutil.copy(os.path.join(wt, f'conf{ab}.md'), os.path.join(d, 'notes.md'))
        mp = os.path.join(d, 'meta.json')
        if not os.path.exists(mp):
            json.dump({'id': cid, 'kind': 'behaviour-preserving refactoring (expected: every check silent)'}, open(mp, 'w'), indent=1)
        print('imported', cid)
    elif a[0] == 'verify':
        tier = 'quick'
        if '--tier' in a:
            i = a.index('--tier'); tier = a[i + 1]; del a[i:i + 2]
        i = a.index('--props'); props = a[i + 1].split(','); del a[i:i + 2]
        for cid in a[1:]:
            sd = os.path.join(BASE, cid)
            meta = json.load(open(os.path.join(sd, 'meta.json')))
            d = os.path.join(ROOT, cid)
            shutil.rmtree(d, ignore_errors=True)
            os.makedirs(d)
            for f in os.listdir('/repo'):
                if f.endswith('.go') or f in ('go.mod', 'go.sum'):
                    shutil.copy(os.path.join('/repo', f), d)
            rc, out = run(['patch', '-p1', '-s', '-i', os.path.join(sd, 'patch.diff')], cwd=d)
            if rc != 0:
                print('PATCH FAILS', cid, out); continue
            rc, out = run(['go', 'test', '-vet=off', '-count=1', './...'], cwd=d)
            meta['suite_with_change'] = 'pass' if rc == 0 else 'FAIL'
            checks = meta.get('checks', {})
            for prop in props:
                t0 = time.time()
                rc, out = run(['/verif/bin/gosmt', 'check', prop, '--tier', tier, '--repo', d, '--no-evidence', '--workers', os.environ.get('SEED_WORKERS', '16')], cwd='/verif')
                verdict = {0: 'silent', 1: 'ALARM', 2: 'inconclusive'}.get(rc, f'rc{rc}')
                lines = [l for l in out.split('\n') if l.startswith('  harness=') or l.startswith('INCONCLUSIVE')]
                checks[f'{prop}/{tier}'] = {'verdict': verdict, 'wall_s': round(time.time() - t0, 1), 'detail': lines[:3]}
                print(f'CONF {cid} {prop}/{tier}: {verdict} ({time.time()-t0:.0f}s)')
                for l in lines[:3]:
                    print('   ', l[:400])
            meta['checks'] = checks
            json.dump(meta, open(os.path.join(sd, 'meta.json'), 'w'), indent=1)
            shutil.rmtree(d, ignore_errors=True)
    elif a[0] == 'table':
        print('| refactoring | suite | checks |\n|---|---|---|')
        for cid in sorted(os.listdir(BASE)):
            m = json.load(open(os.path.join(BASE, cid, 'meta.json')))
            ch = '; '.join(f"{k}: {v['verdict']}" for k, v in sorted(m.get('checks', {}).items()))
            print(f"| {cid} | {m.get('suite_with_change','')} | {ch} |")


if __name__ == '__main__':
    main()
