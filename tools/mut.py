#!/usr/bin/env python3
"""Mutation self-test: apply a textual mutation to a scratch copy of /repo, confirm that the
pinned test-suite still passes on it, run the property's check with --repo <copy>, report.
usage: mut.py [--tier quick] [--keep] name [name...] | --all | --list
Corpus: /verif/mutants/corpus.json  [{name, property, file, old, new, expect: "caught"|"silent", note}]
"""
import json, os, shutil, subprocess, sys, time
ENV = dict(os.environ, GOFLAGS='-mod=mod', GOPROXY='off', GOSUMDB='off', GOTOOLCHAIN='local')
ROOT = '/var/tmp/verif-mut'
def run(cmd, cwd=None, timeout=3600):
    p = subprocess.run(cmd, cwd=cwd, env=ENV, stdout=subprocess.PIPE, stderr=subprocess.STDOUT, text=True, timeout=timeout)
    return p.returncode, p.stdout
def one(m, tier, keep):
    d = os.path.join(ROOT, m['name'])
    shutil.rmtree(d, ignore_errors=True)
    os.makedirs(d)
    for f in os.listdir('/repo'):
        if f.endswith('.go') or f == 'go.mod':
            shutil.copy(os.path.join('/repo', f), d)
    edits = m.get('edits') or [m]
    for e in edits:
        p = os.path.join(d, e['file'])
        s = open(p).read()
        if s.count(e['old']) != 1:
            print(f"{m['name']}: pattern occurs {s.count(e['old'])} times in {e['file']}"); return 'BADPATTERN'
        open(p, 'w').write(s.replace(e['old'], e['new']))
    rc, out = run(['go', 'test', '-vet=off', '-count=1', './...'], cwd=d)
    tests = 'tests-pass' if rc == 0 else 'TESTS-FAIL'
    res = []
    for prop in m['property'].split(','):
        t0 = time.time()
        rc2, out2 = run(['/verif/bin/gosmt', 'check', prop, '--tier', tier, '--repo', d, '--no-evidence'], cwd='/verif')
        verdict = {0: 'silent', 1: 'caught', 2: 'INCONCLUSIVE'}.get(rc2, f'rc{rc2}')
        res.append(f"{prop}:{verdict}({time.time()-t0:.0f}s)")
        exp = m.get('expect_thorough', m.get('expect','caught')) if tier=='thorough' else m.get('expect','caught')
        if verdict != exp or os.environ.get('MUT_VERBOSE'):
            print('\n'.join(out2.strip().split('\n')[-12:]))
    if not keep:
        shutil.rmtree(d, ignore_errors=True)
    print(f"MUT {m['name']}: {tests} {' '.join(res)} expect={m.get('expect','caught')}")
    return res
def main():
    args = sys.argv[1:]
    tier = 'quick'; keep = False
    corpus = json.load(open('/verif/mutants/corpus.json'))
    if '--tier' in args:
        i = args.index('--tier'); tier = args[i+1]; del args[i:i+2]
    if '--keep' in args:
        keep = True; args.remove('--keep')
    if '--list' in args:
        for m in corpus: print(m['name'], m['property'], m.get('expect','caught'))
        return
    names = [m['name'] for m in corpus] if '--all' in args else args
    by = {m['name']: m for m in corpus}
    for n in names:
        if n.endswith('*'):
            for k in by:
                if k.startswith(n[:-1]): one(by[k], tier, keep)
        else:
            one(by[n], tier, keep)
if __name__ == '__main__':
    main()
