#!/usr/bin/env python3
"""Re-run only the harnesses matching a name (e.g. the scale harnesses) on every behaviour-preserving refactoring,
for the properties that refactoring was run against before: expected verdict silent.
  conf_only.py <substring> [workers]"""
import json, os, shutil, subprocess, sys, time
ENV = dict(os.environ, GOFLAGS='-mod=mod', GOPROXY='off', GOSUMDB='off', GOTOOLCHAIN='local')
BASE = '/verif/seeded/conformant'; ROOT = '/var/tmp/verif-conf-only'
only = sys.argv[1]; workers = sys.argv[2] if len(sys.argv) > 2 else '16'
has = set()
import glob
for f in glob.glob('/verif/harness/*.go'):
    for l in open(f):
        if l.startswith('func H_C') and only in l:
            has.add(l[7:10])
bad = 0
for cid in sorted(os.listdir(BASE)):
    mp = os.path.join(BASE, cid, 'meta.json'); meta = json.load(open(mp))
    props = sorted({k.split('/')[0] for k in meta.get('checks', {})} & has)
    if not props: continue
    d = os.path.join(ROOT, cid); shutil.rmtree(d, ignore_errors=True); os.makedirs(d)
    for f in os.listdir('/repo'):
        if f.endswith('.go') or f in ('go.mod', 'go.sum'): shutil.copy(os.path.join('/repo', f), d)
    if subprocess.run(['patch', '-p1', '-s', '-i', os.path.join(BASE, cid, 'patch.diff')], cwd=d).returncode != 0:
        print('PATCH FAILS', cid); continue
    for prop in props:
        t0 = time.time()
        p = subprocess.run(['/verif/bin/gosmt', 'check', prop, '--tier', 'quick', '--repo', d, '--no-evidence', '--only', only, '--workers', workers, '--budget', '300'], cwd='/verif', env=ENV, stdout=subprocess.PIPE, stderr=subprocess.STDOUT, text=True)
        v = {0: 'silent', 1: 'ALARM', 2: 'inconclusive'}.get(p.returncode, f'rc{p.returncode}')
        bad += v != 'silent'
        meta.setdefault('checks', {})[f'{prop}/quick --only {only}'] = {'verdict': v, 'wall_s': round(time.time() - t0, 1), 'detail': [l for l in p.stdout.split('\n') if l.startswith('  harness=') or l.startswith('INCONCLUSIVE')][:3]}
        print(f'CONF {cid} {prop} --only {only}: {v} ({time.time()-t0:.0f}s)', flush=True)
    json.dump(meta, open(mp, 'w'), indent=1)
    shutil.rmtree(d, ignore_errors=True)
print('not silent:', bad)
