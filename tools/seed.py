#!/usr/bin/env python3
"""Seeded-change bookkeeping (changes written by independent sub-agents; see DESIGN.md §13).

  seed.py import <worktree> <A|B> <seed-id> <property>   copy <worktree>/seed<A|B>.{diff,md,_demo_test.go.txt} to /verif/seeded/<seed-id>/
  seed.py verify <seed-id> [--tier quick|thorough] [--props C01,C02]   confirm the change in a scratch copy and run the checks on it
  seed.py table                                            print the catch table from the meta.json files

verify does, in a scratch copy of /repo's working tree under /var/tmp (removed afterwards):
  1. clean tree: demo passes;  2. patched tree: builds, the pinned suite passes, demo fails;
  3. patched tree: `gosmt check <property> --repo <copy>` for the property the seed targets (and any listed with --props);
and records everything in /verif/seeded/<seed-id>/meta.json.  Nothing is ever applied to /repo.
"""
import json, os, shutil, subprocess, sys, time

ENV = dict(os.environ, GOFLAGS='-mod=mod', GOPROXY='off', GOSUMDB='off', GOTOOLCHAIN='local')
SEEDED = '/verif/seeded'
ROOT = '/var/tmp/verif-seed'


def run(cmd, cwd=None, timeout=7200, env=None):
    p = subprocess.run(cmd, cwd=cwd, env=env or ENV, stdout=subprocess.PIPE, stderr=subprocess.STDOUT, text=True, timeout=timeout)
    return p.returncode, p.stdout


def copy_repo(d):
    shutil.rmtree(d, ignore_errors=True)
    os.makedirs(d)
    for f in os.listdir('/repo'):
        if f.endswith('.go') or f in ('go.mod', 'go.sum'):
            shutil.copy(os.path.join('/repo', f), d)


def cmd_import(wt, ab, sid, prop):
    d = os.path.join(SEEDED, sid)
    os.makedirs(d, exist_ok=True)
    shutil.copy(os.path.join(wt, f'seed{ab}.diff'), os.path.join(d, 'patch.diff'))
    shutil.copy(os.path.join(wt, f'seed{ab}_demo_test.go.txt'), os.path.join(d, 'demo_test.go.txt'))
    notes = os.path.join(wt, f'seed{ab}.md')
    if os.path.exists(notes):
        shutil.copy(notes, os.path.join(d, 'notes.md'))
    meta = {'id': sid, 'property': prop, 'origin': 'independent sub-agent given only the property text and a scratch worktree'}
    mp = os.path.join(d, 'meta.json')
    if os.path.exists(mp):
        old = json.load(open(mp))
        old.update(meta)
        meta = old
    json.dump(meta, open(mp, 'w'), indent=1)
    print('imported', sid)


def demo_run(d, demo, race):
    dst = os.path.join(d, 'zz_seed_demo_test.go')
    shutil.copy(demo, dst)
    src = open(dst).read()
    import re
    names = re.findall(r'^func (Test\w+)\(', src, re.M)
    args = ['go', 'test', '-vet=off', '-count=1', '-run', '^(' + '|'.join(names) + ')$']
    env = ENV
    if race:
        args.insert(2, '-race')
        env = dict(ENV, CGO_ENABLED='1')
    rc, out = run(args + ['.'], cwd=d, env=env, timeout=1200)
    os.remove(dst)
    return rc, out


def cmd_verify(sid, tier, props):
    sd = os.path.join(SEEDED, sid)
    meta = json.load(open(os.path.join(sd, 'meta.json')))
    demo = os.path.join(sd, 'demo_test.go.txt')
    race = bool(meta.get('demo_needs_race', False))
    d = os.path.join(ROOT, sid)
    copy_repo(d)
    ran = []
    rc, out = demo_run(d, demo, race)
    meta['demo_on_clean_tree'] = 'pass' if rc == 0 else 'FAIL'
    ran.append('clean tree: go test -run <demo> -> ' + meta['demo_on_clean_tree'])
    if rc != 0:
        print(out[-1500:])
    rc, out = run(['git', 'apply', '--unsafe-paths', '--directory', d, os.path.join(sd, 'patch.diff')], cwd=d)
    if rc != 0:
        # plain patch fallback
        rc, out = run(['patch', '-p1', '-i', os.path.join(sd, 'patch.diff')], cwd=d)
    meta['patch_applies'] = rc == 0
    if rc != 0:
        print('PATCH DOES NOT APPLY', out)
        json.dump(meta, open(os.path.join(sd, 'meta.json'), 'w'), indent=1)
        return
    rc, out = run(['go', 'test', '-vet=off', '-count=1', './...'], cwd=d)
    meta['suite_with_change'] = 'pass' if rc == 0 else 'FAIL'
    ran.append('patched: go test -vet=off -count=1 ./... -> ' + meta['suite_with_change'])
    if rc != 0:
        print(out[-1500:])
    rc, out = demo_run(d, demo, race)
    meta['demo_with_change'] = 'fail' if rc != 0 else 'PASSES'
    ran.append('patched: go test -run <demo> -> ' + meta['demo_with_change'])
    checks = meta.get('checks', {})
    for prop in props or [meta['property']]:
        t0 = time.time()
        rc, out = run(['/verif/bin/gosmt', 'check', prop, '--tier', tier, '--repo', d, '--no-evidence', '--workers', os.environ.get('SEED_WORKERS', '16'), '--budget', os.environ.get('SEED_BUDGET', '1500')], cwd='/verif')
        verdict = {0: 'silent', 1: 'caught', 2: 'inconclusive'}.get(rc, f'rc{rc}')
        lines = [l for l in out.split('\n') if l.startswith('  harness=') or l.startswith('INCONCLUSIVE')]
        checks[f'{prop}/{tier}'] = {'verdict': verdict, 'wall_s': round(time.time() - t0, 1), 'detail': lines[:4]}
        ran.append(f'patched: gosmt check {prop} --tier {tier} --repo <copy> -> {verdict}')
        print(f'SEED {sid} {prop}/{tier}: {verdict} ({time.time()-t0:.0f}s)')
        for l in lines[:4]:
            print('   ', l[:300])
    meta['checks'] = checks
    meta['what_i_ran'] = ran
    ok = meta['demo_on_clean_tree'] == 'pass' and meta['suite_with_change'] == 'pass' and meta['demo_with_change'] == 'fail'
    meta['confirmed'] = ok
    dp = os.path.join(SEEDED, 'descriptions.json')
    if os.path.exists(dp):
        meta.update(json.load(open(dp)).get(sid, {}))
    json.dump(meta, open(os.path.join(sd, 'meta.json'), 'w'), indent=1)
    shutil.rmtree(d, ignore_errors=True)
    print(f"SEED {sid}: confirmed={ok} clean-demo={meta['demo_on_clean_tree']} suite={meta['suite_with_change']} demo={meta['demo_with_change']}")


def cmd_table():
    rows = []
    for sid in sorted(os.listdir(SEEDED)):
        mp = os.path.join(SEEDED, sid, 'meta.json')
        if not os.path.exists(mp):
            continue
        m = json.load(open(mp))
        dp = os.path.join(SEEDED, 'descriptions.json')
        if os.path.exists(dp):
            m.update(json.load(open(dp)).get(sid, {}))
        ch = '; '.join(f"{k}: {v['verdict']}" for k, v in sorted(m.get('checks', {}).items()))
        esc = lambda t: str(t).replace('|', '\\|')
        rows.append(f"| {sid} | {m['property']} | {esc(m.get('summary',''))} | {esc(m.get('needs',''))} | {ch} |")
    print('| seed | property | change | needs | checks |\n|---|---|---|---|---|')
    print('\n'.join(rows))


def main():
    a = sys.argv[1:]
    if not a:
        print(__doc__)
        return
    if a[0] == 'import':
        cmd_import(a[1], a[2], a[3], a[4])
    elif a[0] == 'verify':
        tier = 'quick'
        props = None
        if '--tier' in a:
            i = a.index('--tier'); tier = a[i + 1]; del a[i:i + 2]
        if '--props' in a:
            i = a.index('--props'); props = a[i + 1].split(','); del a[i:i + 2]
        for sid in a[1:]:
            cmd_verify(sid, tier, props)
    elif a[0] == 'table':
        cmd_table()


if __name__ == '__main__':
    main()
