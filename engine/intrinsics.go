package main

// Intrinsics: harness primitives (nondet*, verif*) and the environment model of
// the standard library (DESIGN.md §3: class B models, class C contract stubs).

import (
	goruntime "runtime"
	"fmt"
	"go/token"
	"go/types"
	"math"
	"strconv"
	"strings"
	"unicode"

	"golang.org/x/tools/go/ssa"
)

type intrinsic func(x *Exec, fr *frame, args []value) value

var intrinsics map[string]intrinsic

const hp = "github.com/DanielSvub/anytype."

// fileHandle is what an *os.File points to in the file model.
type fileHandle struct {
	path   string
	pos    int
	closed bool
}

type fileStub struct {
	data   strVal
	exists bool
}

func init() {
	intrinsics = map[string]intrinsic{}
	reg := func(name string, f intrinsic) { intrinsics[name] = f }

	// ---- nondeterministic inputs ----
	nd := func(kind string, s Sort, wrap func(x *Exec, t *Term) value) intrinsic {
		return func(x *Exec, fr *frame, args []value) value {
			t := x.freshVar(kind, s)
			if wrap != nil {
				return wrap(x, t)
			}
			return t
		}
	}
	reg(hp+"nondetBool", nd("bool", SBool, nil))
	reg(hp+"nondetInt", nd("int64", BV(64), nil))
	reg(hp+"nondetInt64", nd("int64", BV(64), nil))
	reg(hp+"nondetInt32", nd("int32", BV(32), nil))
	reg(hp+"nondetRune", nd("int32", BV(32), nil))
	reg(hp+"nondetInt16", nd("int16", BV(16), nil))
	reg(hp+"nondetInt8", nd("int8", BV(8), nil))
	reg(hp+"nondetUint", nd("uint64", BV(64), nil))
	reg(hp+"nondetUint64", nd("uint64", BV(64), nil))
	reg(hp+"nondetUint32", nd("uint32", BV(32), nil))
	reg(hp+"nondetUint16", nd("uint16", BV(16), nil))
	reg(hp+"nondetUint8", nd("uint8", BV(8), nil))
	reg(hp+"nondetByte", nd("uint8", BV(8), nil))
	reg(hp+"nondetFloat64", nd("float64", BV(64), func(x *Exec, t *Term) value { return x.tb.FFromBits(t) }))
	reg(hp+"nondetFloat32", nd("float32", BV(32), func(x *Exec, t *Term) value { return x.tb.FFromBits(t) }))

	reg(hp+"nondetIntRange", func(x *Exec, fr *frame, args []value) value {
		lo := x.concInt(args[0], "range lo")
		hi := x.concInt(args[1], "range hi")
		if hi < lo {
			panic(pathEnd{"assume: empty range"})
		}
		k := x.choose(int(hi-lo+1), "range")
		c := x.tb.Int(lo + int64(k))
		x.inputs = append(x.inputs, inputRec{kind: "choice", t: c})
		return c
	})

	// ---- verification primitives ----
	reg(hp+"verifAssume", func(x *Exec, fr *frame, args []value) value {
		x.assume(args[0].(*Term))
		return nil
	})
	reg(hp+"verifAssert", func(x *Exec, fr *frame, args []value) value {
		msg, _ := args[1].(strVal).concrete()
		x.assertT(args[0].(*Term), msg)
		return nil
	})
	reg(hp+"verifReach", func(x *Exec, fr *frame, args []value) value {
		l, _ := args[0].(strVal).concrete()
		x.reached[l] = true
		return nil
	})
	reg(hp+"verifTier", func(x *Exec, fr *frame, args []value) value { return x.tb.Int(int64(x.tier)) })
	reg(hp+"verifBound", func(x *Exec, fr *frame, args []value) value {
		n, _ := args[0].(strVal).concrete()
		v := x.concInt(args[1], "bound")
		x.bounds[x.harness+"."+n] = v
		if n == "UNWIND" && int(v) > x.unwind {
			// scale harnesses walk long concrete structures: the bound stays a non-termination guard,
			// raised for this path only (the step limit still applies)
			x.unwind = int(v)
		}
		return nil
	})
	reg(hp+"verifMapOrder", func(x *Exec, fr *frame, args []value) value {
		x.mapOrder = int(x.concInt(args[0], "map order mode"))
		return nil
	})
	reg(hp+"verifAnd", func(x *Exec, fr *frame, args []value) value { return x.tb.And(args[0].(*Term), args[1].(*Term)) })
	reg(hp+"verifOr", func(x *Exec, fr *frame, args []value) value { return x.tb.Or(args[0].(*Term), args[1].(*Term)) })
	reg(hp+"verifImplies", func(x *Exec, fr *frame, args []value) value { return x.tb.Implies(args[0].(*Term), args[1].(*Term)) })
	reg(hp+"verifIteInt", func(x *Exec, fr *frame, args []value) value { return x.tb.Ite(args[0].(*Term), args[1].(*Term), args[2].(*Term)) })
	reg(hp+"verifIteFloat", func(x *Exec, fr *frame, args []value) value { return x.tb.Ite(args[0].(*Term), args[1].(*Term), args[2].(*Term)) })
	reg(hp+"verifFloatBits", func(x *Exec, fr *frame, args []value) value { return x.tb.FToBits(args[0].(*Term)) })
	reg(hp+"verifSymbolic", func(x *Exec, fr *frame, args []value) value { return x.tb.True() })
	reg(hp+"verifCatch", func(x *Exec, fr *frame, args []value) (res value) {
		defer func() {
			if r := recover(); r != nil {
				if _, ok := r.(targetPanic); ok {
					res = x.tb.True()
					return
				}
				panic(r)
			}
		}()
		x.call(fr, token.NoPos, args[0], nil)
		return x.tb.False()
	})
	reg(hp+"verifObserve", func(x *Exec, fr *frame, args []value) value {
		l, _ := args[0].(strVal).concrete()
		var vals []value
		if sl, ok := args[1].(sliceVal); ok {
			vals = append(vals, sl.a...)
		}
		x.observes = append(x.observes, observation{label: l, vals: vals})
		return nil
	})
	reg(hp+"verifSetFile", func(x *Exec, fr *frame, args []value) value {
		p, _ := args[0].(strVal).concrete()
		ex := args[2].(*Term)
		x.fileData[p] = fileStub{data: args[1].(strVal), exists: x.branch(ex)}
		return nil
	})
	reg(hp+"verifSameBacking", func(x *Exec, fr *frame, args []value) value {
		a, b := args[0].(iface), args[1].(iface)
		return x.tb.Bool(x.sameBacking(a.v, b.v))
	})
	// pure uninterpreted function int -> int (C15 MapAsync callbacks)
	reg(hp+"verifUF", func(x *Exec, fr *frame, args []value) value {
		a := args[0].(*Term)
		b := args[1].(*Term)
		return x.tb.UF("ufcb", BV(64), x.tb.Concat(a, b))
	})

	// ---- class B: semantics-preserving models ----
	reg("internal/bytealg.IndexByteString", func(x *Exec, fr *frame, args []value) value {
		s := args[0].(strVal)
		c := args[1].(*Term)
		bs := x.bytesOf(s)
		for i, b := range bs {
			if x.branch(x.tb.Eq(b, c)) {
				return x.tb.Int(int64(i))
			}
		}
		return x.tb.Int(-1)
	})
	reg("internal/bytealg.IndexByte", func(x *Exec, fr *frame, args []value) value {
		s := args[0].(sliceVal)
		c := args[1].(*Term)
		for i, b := range s.a {
			if x.branch(x.tb.Eq(b.(*Term), c)) {
				return x.tb.Int(int64(i))
			}
		}
		return x.tb.Int(-1)
	})
	// three-way comparison of byte sequences (runtime.cmpstring / bytealg.Compare are assembly)
	cmpBytes := func(x *Exec, a, b []*Term) value {
		n := len(a)
		if len(b) < n {
			n = len(b)
		}
		for i := 0; i < n; i++ {
			if x.branch(x.tb.Eq(a[i], b[i])) {
				continue
			}
			if x.branch(x.tb.Ult(a[i], b[i])) {
				return x.tb.Int(-1)
			}
			return x.tb.Int(1)
		}
		switch {
		case len(a) < len(b):
			return x.tb.Int(-1)
		case len(a) > len(b):
			return x.tb.Int(1)
		}
		return x.tb.Int(0)
	}
	for _, name := range []string{"internal/bytealg.CompareString", "internal/bytealg.abigen_runtime_cmpstring", "runtime.cmpstring"} {
		reg(name, func(x *Exec, fr *frame, args []value) value {
			return cmpBytes(x, x.bytesOf(args[0].(strVal)), x.bytesOf(args[1].(strVal)))
		})
	}
	reg("internal/bytealg.Compare", func(x *Exec, fr *frame, args []value) value {
		conv := func(v value) []*Term {
			sl := v.(sliceVal)
			out := make([]*Term, len(sl.a))
			for i := range sl.a {
				out[i] = sl.a[i].(*Term)
			}
			return out
		}
		return cmpBytes(x, conv(args[0]), conv(args[1]))
	})
	reg("internal/bytealg.CountString", func(x *Exec, fr *frame, args []value) value {
		s := args[0].(strVal)
		c := args[1].(*Term)
		n := int64(0)
		for _, b := range x.bytesOf(s) {
			if x.branch(x.tb.Eq(b, c)) {
				n++
			}
		}
		return x.tb.Int(n)
	})
	reg("internal/bytealg.IndexString", func(x *Exec, fr *frame, args []value) value {
		s := args[0].(strVal)
		sub := args[1].(strVal)
		n, m := s.Len(), sub.Len()
		sb, ub := x.bytesOf(s), x.bytesOf(sub)
		for i := 0; i+m <= n; i++ {
			c := x.tb.True()
			for j := 0; j < m; j++ {
				c = x.tb.And(c, x.tb.Eq(sb[i+j], ub[j]))
			}
			if x.branch(c) {
				return x.tb.Int(int64(i))
			}
		}
		return x.tb.Int(-1)
	})
	reg("internal/bytealg.MakeNoZero", func(x *Exec, fr *frame, args []value) value {
		n := x.concInt(args[0], "MakeNoZero")
		out := make([]value, n)
		for i := range out {
			out[i] = x.tb.bytes[0]
		}
		return sliceVal{a: out}
	})
	reg("internal/stringslite.Index", nil)
	delete(intrinsics, "internal/stringslite.Index")

	reg("(*strings.Builder).copyCheck", func(x *Exec, fr *frame, args []value) value { return nil })
	reg("(*strings.Builder).String", func(x *Exec, fr *frame, args []value) value {
		p := args[0].(*value)
		buf := (*p).(structure)[1].(sliceVal)
		b := make([]*Term, len(buf.a))
		for i, e := range buf.a {
			b[i] = e.(*Term)
		}
		return x.mkStr(b)
	})
	reg("(*strings.Builder).grow", func(x *Exec, fr *frame, args []value) value {
		p := args[0].(*value)
		st := (*p).(structure)
		buf := st[1].(sliceVal)
		n := int(x.concInt(args[1], "Builder.grow"))
		nb := make([]value, len(buf.a), 2*cap(buf.a)+n)
		copy(nb, buf.a)
		st[1] = sliceVal{a: nb}
		return nil
	})
	reg("strings.Repeat", func(x *Exec, fr *frame, args []value) value {
		s := args[0].(strVal)
		n := x.concInt(args[1], "strings.Repeat count")
		if n < 0 {
			panic(targetPanic{v: iface{t: types.Typ[types.String], v: strVal{s: "strings: negative Repeat count"}}, msg: "strings: negative Repeat count"})
		}
		if n > 4096 {
			panic(unsupported{"strings.Repeat count too large"})
		}
		var out []*Term
		bs := x.bytesOf(s)
		for i := int64(0); i < n; i++ {
			out = append(out, bs...)
		}
		return x.mkStr(out)
	})
	reg("internal/stringslite.Clone", func(x *Exec, fr *frame, args []value) value { return args[0] })
	reg("strings.Clone", func(x *Exec, fr *frame, args []value) value { return args[0] })
	reg("strconv.cloneString", func(x *Exec, fr *frame, args []value) value { return args[0] })

	reg("fmt.Sprintf", func(x *Exec, fr *frame, args []value) value {
		return x.sprintf(args[0].(strVal), args[1].(sliceVal))
	})
	reg("fmt.Errorf", func(x *Exec, fr *frame, args []value) value {
		s := x.sprintf(args[0].(strVal), args[1].(sliceVal))
		cell := value(structure{s})
		return iface{t: types.NewPointer(x.errStrType), v: &cell}
	})
	// errors.Is / errors.Unwrap: the chain walk of the real functions without their reflection-based
	// comparability test (comparable dynamic types only; Unwrap() []error is not modelled)
	unwrapOnce := func(x *Exec, fr *frame, e iface) (iface, bool) {
		m := x.findMethod(e.t, "Unwrap")
		if m == nil {
			return iface{}, false
		}
		sig := m.Signature
		if sig.Params().Len() != 0 || sig.Results().Len() != 1 {
			return iface{}, false
		}
		if _, isSlice := sig.Results().At(0).Type().Underlying().(*types.Slice); isSlice {
			panic(unsupported{"errors: Unwrap() []error"})
		}
		r, ok := x.callSSA(fr, token.NoPos, m, []value{e.v}, nil).(iface)
		return r, ok
	}
	reg("errors.Unwrap", func(x *Exec, fr *frame, args []value) value {
		e := args[0].(iface)
		if e.t == nil {
			return iface{}
		}
		r, _ := unwrapOnce(x, fr, e)
		return r
	})
	reg("errors.Is", func(x *Exec, fr *frame, args []value) value {
		e, target := args[0].(iface), args[1].(iface)
		if e.t == nil || target.t == nil {
			return x.tb.Bool(e.t == nil && target.t == nil)
		}
		for depth := 0; depth < 32; depth++ {
			if types.Identical(e.t, target.t) && types.Comparable(e.t) {
				if x.branch(x.equals(e.t, e.v, target.v)) {
					return x.tb.True()
				}
			}
			if m := x.findMethod(e.t, "Is"); m != nil && m.Signature.Params().Len() == 1 {
				if r, ok := x.callSSA(fr, token.NoPos, m, []value{e.v, target}, nil).(*Term); ok && x.branch(r) {
					return x.tb.True()
				}
			}
			next, ok := unwrapOnce(x, fr, e)
			if !ok || next.t == nil {
				return x.tb.False()
			}
			e = next
		}
		panic(unsupported{"errors.Is: chain longer than 32"})
	})
	// Fprintf(w, format, args...) = w.Write([]byte(Sprintf(format, args...)))
	reg("fmt.Fprintf", func(x *Exec, fr *frame, args []value) value {
		s := x.sprintf(args[1].(strVal), args[2].(sliceVal))
		bs := x.bytesOf(s)
		buf := make([]value, len(bs))
		for i := range bs {
			buf[i] = bs[i]
		}
		w := args[0].(iface)
		if w.t == nil {
			x.rtPanic("invalid memory address or nil pointer dereference (Fprintf to a nil io.Writer)")
		}
		m := x.findMethod(w.t, "Write")
		if m == nil {
			panic(unsupported{"Fprintf: writer without Write method"})
		}
		return x.callSSA(fr, token.NoPos, m, []value{w.v, sliceVal{a: buf}}, nil)
	})
	reg("fmt.Sprint", func(x *Exec, fr *frame, args []value) value {
		var out []*Term
		for _, a := range args[0].(sliceVal).a {
			out = append(out, x.fmtArg('v', a)...)
		}
		return x.mkStr(out)
	})

	// pure rune predicates summarised as interval sets extracted from the linked library
	reg("unicode.IsSpace", runePred("unicode.IsSpace", unicode.IsSpace))
	reg("strconv.IsPrint", runePred("strconv.IsPrint", strconv.IsPrint))
	reg("unicode.IsPrint", runePred("unicode.IsPrint", unicode.IsPrint))
	reg("strconv.isInGraphicList", runePred("strconv.isInGraphicList", func(r rune) bool { return strconv.IsGraphic(r) && !strconv.IsPrint(r) }))

	reg("math.Abs", func(x *Exec, fr *frame, args []value) value { return x.tb.fun(OFAbs, args[0].(*Term)) })
	reg("math.Float64bits", func(x *Exec, fr *frame, args []value) value { return x.tb.FToBits(args[0].(*Term)) })
	reg("math.Float64frombits", func(x *Exec, fr *frame, args []value) value { return x.tb.FFromBits(args[0].(*Term)) })
	reg("math.Float32bits", func(x *Exec, fr *frame, args []value) value { return x.tb.FToBits(args[0].(*Term)) })
	reg("math.Float32frombits", func(x *Exec, fr *frame, args []value) value { return x.tb.FFromBits(args[0].(*Term)) })
	reg("math.IsNaN", func(x *Exec, fr *frame, args []value) value { return x.tb.fun(OFIsNaN, args[0].(*Term)) })
	reg("math.IsInf", func(x *Exec, fr *frame, args []value) value {
		f := args[0].(*Term)
		sign := args[1].(*Term)
		inf := x.tb.fun(OFIsInf, f)
		neg := x.tb.fcmp(OFLt, f, x.tb.fconst(f.sort, 0))
		zero := x.tb.Const(64, 0)
		pos := x.tb.And(inf, x.tb.Not(neg))
		ng := x.tb.And(inf, neg)
		return x.tb.Ite(x.tb.Eq(sign, zero), inf, x.tb.Ite(x.tb.Slt(zero, sign), pos, ng))
	})
	reg("math.Trunc", func(x *Exec, fr *frame, args []value) value { return x.tb.fun(OFRoundRTZ, args[0].(*Term)) })
	// assembly kernels of package math on amd64: redirected to the portable Go bodies of the same package
	// (math.max/min/floor/ceil/trunc/hypot are the reference implementations the assembly is tested against)
	for arch, pure := range map[string]string{"archMax": "max", "archMin": "min", "archFloor": "floor", "archCeil": "ceil", "archTrunc": "trunc", "archHypot": "hypot"} {
		pure := pure
		reg("math."+arch, func(x *Exec, fr *frame, args []value) value {
			return x.callSSA(fr, token.NoPos, x.P.prog.ImportedPackage("math").Func(pure), args, nil)
		})
	}

	reg("os.ReadFile", func(x *Exec, fr *frame, args []value) value {
		p, ok := args[0].(strVal).concrete()
		if !ok {
			panic(unsupported{"os.ReadFile with symbolic path"})
		}
		fs, ok := x.fileData[p]
		if !ok || !fs.exists {
			cell := value(structure{strVal{s: "open " + p + ": no such file or directory"}})
			return tuple{sliceVal{}, iface{t: types.NewPointer(x.errStrType), v: &cell}}
		}
		bs := x.bytesOf(fs.data)
		out := make([]value, len(bs))
		for i := range bs {
			out[i] = bs[i]
		}
		return tuple{sliceVal{a: out}, iface{}}
	})

	// os.Open / io.ReadAll / (*os.File).Close over the same file stub: an open file is an opaque handle that
	// remembers its path and a read position
	reg("os.Open", func(x *Exec, fr *frame, args []value) value {
		p, ok := args[0].(strVal).concrete()
		if !ok {
			panic(unsupported{"os.Open with symbolic path"})
		}
		fs, ok := x.fileData[p]
		if !ok || !fs.exists {
			cell := value(structure{strVal{s: "open " + p + ": no such file or directory"}})
			return tuple{(*value)(nil), iface{t: types.NewPointer(x.errStrType), v: &cell}}
		}
		h := value(fileHandle{path: p})
		return tuple{&h, iface{}}
	})
	readAll := func(x *Exec, h *value) value {
		fh, ok := (*h).(fileHandle)
		if !ok {
			panic(unsupported{"io.ReadAll of an unmodelled reader"})
		}
		bs := x.bytesOf(x.fileData[fh.path].data)
		var out []value
		if fh.pos < len(bs) {
			out = make([]value, 0, len(bs)-fh.pos)
			for _, b := range bs[fh.pos:] {
				out = append(out, b)
			}
		} else {
			out = []value{}
		}
		fh.pos = len(bs)
		*h = fh
		return tuple{sliceVal{a: out}, iface{}}
	}
	for _, name := range []string{"io.ReadAll", "io/ioutil.ReadAll"} {
		reg(name, func(x *Exec, fr *frame, args []value) value {
			r := args[0].(iface)
			h, ok := r.v.(*value)
			if !ok || h == nil {
				return useBody{}
			}
			if _, isFile := (*h).(fileHandle); !isFile {
				return useBody{} // any other reader: the real io.ReadAll
			}
			return readAll(x, h)
		})
	}
	// (*os.File).Read: the next min(len(b), remaining) bytes; (0, io.EOF) at the end (bufio over a file runs as real code)
	reg("(*os.File).Read", func(x *Exec, fr *frame, args []value) value {
		h, _ := args[0].(*value)
		if h == nil {
			panic(unsupported{"Read on a nil *os.File"})
		}
		fh, ok := (*h).(fileHandle)
		if !ok || fh.closed {
			panic(unsupported{"Read of an unmodelled or closed file"})
		}
		dst := args[1].(sliceVal)
		bs := x.bytesOf(x.fileData[fh.path].data)
		if len(dst.a) == 0 {
			return tuple{x.tb.Const(64, 0), iface{}}
		}
		if fh.pos >= len(bs) {
			var eof value = iface{}
			if iop := x.P.prog.ImportedPackage("io"); iop != nil {
				if g, ok := iop.Members["EOF"].(*ssa.Global); ok {
					eof = *x.globals[g]
				}
			}
			if ei, ok := eof.(iface); !ok || ei.t == nil {
				panic(unsupported{"io.EOF is not initialised"})
			}
			return tuple{x.tb.Const(64, 0), eof}
		}
		n := len(bs) - fh.pos
		if n > len(dst.a) {
			n = len(dst.a)
		}
		for i := 0; i < n; i++ {
			x.noteWrite(&dst.a[i])
			dst.a[i] = bs[fh.pos+i]
		}
		fh.pos += n
		*h = fh
		return tuple{x.tb.Const(64, uint64(n)), iface{}}
	})
	// (*os.File).Stat / os.Stat of a stub file: a regular file whose size is the length of its content
	fileInfo := func(x *Exec, path string) value {
		osp := x.P.prog.ImportedPackage("os")
		if osp == nil || osp.Type("fileStat") == nil {
			panic(unsupported{"os.fileStat not available"})
		}
		st := osp.Type("fileStat").Type()
		str := st.Underlying().(*types.Struct)
		cell := x.zero(st)
		sv, ok := cell.(structure)
		if !ok {
			panic(unsupported{"os.fileStat representation"})
		}
		n := len(x.bytesOf(x.fileData[path].data))
		for i := 0; i < str.NumFields(); i++ {
			switch str.Field(i).Name() {
			case "size":
				sv[i] = x.tb.Const(64, uint64(n))
			case "name":
				base := path
				if k := strings.LastIndex(base, "/"); k >= 0 {
					base = base[k+1:]
				}
				sv[i] = strVal{s: base}
			}
		}
		cell = sv
		return iface{t: types.NewPointer(st), v: &cell}
	}
	reg("(*os.File).Stat", func(x *Exec, fr *frame, args []value) value {
		h, _ := args[0].(*value)
		if h == nil {
			panic(unsupported{"Stat on a nil *os.File"})
		}
		fh, ok := (*h).(fileHandle)
		if !ok || fh.closed {
			panic(unsupported{"Stat of an unmodelled or closed file"})
		}
		return tuple{fileInfo(x, fh.path), iface{}}
	})
	reg("os.Stat", func(x *Exec, fr *frame, args []value) value {
		p, ok := args[0].(strVal).concrete()
		if !ok {
			panic(unsupported{"os.Stat with symbolic path"})
		}
		fs, ok := x.fileData[p]
		if !ok || !fs.exists {
			cell := value(structure{strVal{s: "stat " + p + ": no such file or directory"}})
			return tuple{iface{}, iface{t: types.NewPointer(x.errStrType), v: &cell}}
		}
		return tuple{fileInfo(x, p), iface{}}
	})
	reg("(*os.File).Close", func(x *Exec, fr *frame, args []value) value {
		h, _ := args[0].(*value)
		if h == nil {
			cell := value(structure{strVal{s: "invalid argument"}})
			return iface{t: types.NewPointer(x.errStrType), v: &cell}
		}
		fh, ok := (*h).(fileHandle)
		if !ok {
			panic(unsupported{"Close of an unmodelled file"})
		}
		if fh.closed {
			cell := value(structure{strVal{s: "close " + fh.path + ": file already closed"}})
			return iface{t: types.NewPointer(x.errStrType), v: &cell}
		}
		fh.closed = true
		*h = fh
		return iface{}
	})

	// sync.Pool inside encoding/json: cut (fresh scanner each time)
	reg("encoding/json.newScanner", func(x *Exec, fr *frame, args []value) value {
		pkg := x.P.prog.ImportedPackage("encoding/json")
		st := pkg.Type("scanner").Type()
		cell := x.zero(st)
		p := &cell
		reset := x.P.prog.LookupMethod(types.NewPointer(st), pkg.Pkg, "reset")
		x.callSSA(fr, token.NoPos, reset, []value{p}, nil)
		return p
	})
	reg("encoding/json.freeScanner", func(x *Exec, fr *frame, args []value) value { return nil })

	// sort.Slice family: only the reflection part is modelled (reflectlite.Swapper -> a swapper over
	// the slice cells, reflectlite.ValueOf(x).Len() -> the concrete length); the sorting itself is the
	// real sort.pdqsort_func / sort.stable_func SSA driving the real less closure.
	sortSliceWith := func(stable bool) func(x *Exec, fr *frame, args []value) value {
		return func(x *Exec, fr *frame, args []value) value {
			iv := args[0].(iface)
			sl, ok := iv.v.(sliceVal)
			if !ok {
				panic(unsupported{"sort.Slice of non-slice"})
			}
			n := len(sl.a)
			less := args[1]
			idx := func(v value) int {
				t := v.(*Term)
				if t.op != OConst {
					panic(unsupported{"sort.Slice swapper with a symbolic index"})
				}
				return int(int64(t.u))
			}
			swap := nativeFn(func(x *Exec, fr *frame, a []value) value {
				i, j := idx(a[0]), idx(a[1])
				if i < 0 || j < 0 || i >= n || j >= n {
					x.rtPanic("reflect: slice index out of range")
				}
				sl.a[i], sl.a[j] = sl.a[j], sl.a[i]
				return nil
			})
			pkg := x.P.prog.ImportedPackage("sort")
			ls := structure{less, value(swap)}
			if stable {
				x.callSSA(fr, token.NoPos, pkg.Func("stable_func"), []value{ls, x.tb.Int(int64(n))}, nil)
			} else {
				limit := 0
				for m := n; m > 0; m >>= 1 {
					limit++
				}
				x.callSSA(fr, token.NoPos, pkg.Func("pdqsort_func"), []value{ls, x.tb.Int(0), x.tb.Int(int64(n)), x.tb.Int(int64(limit))}, nil)
			}
			return nil
		}
	}
	reg("sort.Slice", sortSliceWith(false))
	reg("sort.SliceStable", sortSliceWith(true))

	// runtime.GOMAXPROCS is a piece of state the harness sets explicitly (so that a replay runs under the same
	// setting); unset, it is the number of CPUs of this machine, as in the native run
	reg("runtime.GOMAXPROCS", func(x *Exec, fr *frame, args []value) value {
		cur := x.procs
		if cur == 0 {
			cur = int64(goruntime.NumCPU())
		}
		if n := x.concretize(args[0].(*Term), "GOMAXPROCS"); n > 0 {
			x.procs = n
		}
		return x.tb.Int(cur)
	})
	reg("runtime.NumCPU", func(x *Exec, fr *frame, args []value) value { return x.tb.Int(int64(goruntime.NumCPU())) })
	registerNumberStubs(reg)
	registerReflectStubs(reg)
	registerSyncStubs(reg)
	registerConcIntrinsics(reg)
}

func (x *Exec) freshVar(kind string, s Sort) *Term {
	name := fmt.Sprintf("in%d_%s", len(x.inputs), s.tag())
	t := x.tb.Var(name, s)
	x.inputs = append(x.inputs, inputRec{kind: kind, t: t})
	return t
}

// fresh auxiliary variable that is not a replay input (stub outputs)
func (x *Exec) auxVar(s Sort) *Term {
	x.nvars++
	t := x.tb.Var(fmt.Sprintf("aux%d_%d_%s", len(x.inputs), x.nvars, s.tag()), s)
	x.auxVars = append(x.auxVars, t)
	return t
}

// runePred turns a total predicate on runes into a Bool term over a symbolic rune, from
// its exhaustive truth table computed with the linked Go library.
func runePred(name string, f func(rune) bool) intrinsic {
	type iv struct{ lo, hi int64 }
	var ivs []iv
	computed := false
	compute := func() {
		var cur *iv
		for r := int64(0); r <= unicode.MaxRune; r++ {
			if f(rune(r)) {
				if cur != nil && cur.hi == r-1 {
					cur.hi = r
				} else {
					ivs = append(ivs, iv{r, r})
					cur = &ivs[len(ivs)-1]
				}
			}
		}
		computed = true
	}
	return func(x *Exec, fr *frame, args []value) value {
		r := args[0].(*Term)
		if r.op == OConst {
			return x.tb.Bool(f(rune(int32(r.u))))
		}
		if !computed {
			runePredMu.Lock()
			if !computed {
				compute()
			}
			runePredMu.Unlock()
		}
		// outside 0..MaxRune the real functions return false
		var build func(lo, hi int) *Term
		build = func(lo, hi int) *Term {
			if hi-lo == 1 {
				i := ivs[lo]
				if i.lo == i.hi {
					return x.tb.Eq(r, x.tb.Const(32, uint64(i.lo)))
				}
				return x.tb.And(x.tb.Sle(x.tb.Const(32, uint64(i.lo)), r), x.tb.Sle(r, x.tb.Const(32, uint64(i.hi))))
			}
			mid := (lo + hi) / 2
			// balanced: r < ivs[mid].lo ? left : right
			return x.tb.Ite(x.tb.Slt(r, x.tb.Const(32, uint64(ivs[mid].lo))), build(lo, mid), build(mid, hi))
		}
		if len(ivs) == 0 {
			return x.tb.False()
		}
		return build(0, len(ivs))
	}
}

// sprintf models fmt.Sprintf for constant formats with %s %d %v %q-free verbs.
func (x *Exec) sprintf(format strVal, args sliceVal) strVal {
	f, ok := format.concrete()
	if !ok {
		return x.sprintfSymbolic(x.bytesOf(format), args)
	}
	var out []*Term
	ai := 0
	for i := 0; i < len(f); i++ {
		c := f[i]
		if c != '%' {
			out = append(out, x.tb.bytes[c])
			continue
		}
		i++
		if i >= len(f) {
			out = append(out, x.bytesOf(strVal{s: "%!(NOVERB)"})...)
			break
		}
		if f[i] == '%' {
			out = append(out, x.tb.bytes['%'])
			continue
		}
		// flags and width (the subset anytype-style code uses: '0', '-', '+', ' ', '#', decimal width)
		zero, left := false, false
		for i < len(f) && (f[i] == '0' || f[i] == '-' || f[i] == '+' || f[i] == ' ' || f[i] == '#') {
			switch f[i] {
			case '0':
				zero = true
			case '-':
				left = true
			default:
				panic(unsupported{"fmt flag " + string(f[i])})
			}
			i++
		}
		width := 0
		for i < len(f) && f[i] >= '0' && f[i] <= '9' {
			width = width*10 + int(f[i]-'0')
			i++
		}
		if i >= len(f) {
			out = append(out, x.bytesOf(strVal{s: "%!(NOVERB)"})...)
			break
		}
		if f[i] == '.' || f[i] == '*' || f[i] == '[' {
			panic(unsupported{"fmt precision / indexed argument"})
		}
		verb := f[i]
		if ai >= len(args.a) {
			out = append(out, x.bytesOf(strVal{s: "%!" + string(verb) + "(MISSING)"})...)
			continue
		}
		body := x.fmtArg(verb, args.a[ai])
		ai++
		if pad := width - len(body); pad > 0 {
			// width counts runes; bodies produced here are ASCII whenever a width is given in practice
			fill := x.tb.bytes[' ']
			if zero && !left {
				fill = x.tb.bytes['0']
			}
			padding := make([]*Term, pad)
			for k := range padding {
				padding[k] = fill
			}
			if left {
				body = append(append([]*Term{}, body...), padding...)
			} else if zero && len(body) > 0 && body[0].op == OConst && body[0].u == '-' {
				body = append(append([]*Term{body[0]}, padding...), body[1:]...)
			} else {
				body = append(padding, body...)
			}
		}
		out = append(out, body...)
	}
	if ai < len(args.a) {
		panic(unsupported{"fmt with extra arguments"})
	}
	return x.mkStr(out)
}

// sprintfSymbolic handles a format string with symbolic bytes (data spliced into the format): every
// symbolic byte is decided to be '%' or not by forking; the byte after a '%' is decided among the plain
// verbs, a second '%', or a "bad verb" (rendered as fmt does: %!c(type=value)); flags, widths and
// precisions at symbolic positions are outside the model (inconclusive).
func (x *Exec) sprintfSymbolic(f []*Term, args sliceVal) strVal {
	tb := x.tb
	is := func(b *Term, c byte) bool {
		if b.op == OConst {
			return byte(b.u) == c
		}
		return x.branch(tb.Eq(b, tb.bytes[c]))
	}
	var out []*Term
	ai := 0
	for i := 0; i < len(f); i++ {
		if !is(f[i], '%') {
			out = append(out, f[i])
			continue
		}
		i++
		if i >= len(f) {
			out = append(out, x.bytesOf(strVal{s: "%!(NOVERB)"})...)
			break
		}
		v := f[i]
		if is(v, '%') {
			out = append(out, tb.bytes['%'])
			continue
		}
		verb := byte(0)
		for _, c := range []byte("svdxXc") {
			if is(v, c) {
				verb = c
				break
			}
		}
		if verb == 0 {
			for _, c := range []byte("0123456789+-# .*[") {
				if is(v, c) {
					panic(unsupported{"fmt: flag/width at a symbolic format position"})
				}
			}
		}
		if ai >= len(args.a) {
			out = append(out, tb.bytes['%'], tb.bytes['!'], v)
			out = append(out, x.bytesOf(strVal{s: "(MISSING)"})...)
			continue
		}
		a := args.a[ai]
		ai++
		if verb != 0 {
			out = append(out, x.fmtArg(verb, a)...)
			continue
		}
		out = append(out, x.badVerb(v, a)...)
	}
	if ai < len(args.a) {
		out = append(out, x.bytesOf(strVal{s: "%!(EXTRA "})...)
		for k := ai; k < len(args.a); k++ {
			if k > ai {
				out = append(out, tb.bytes[','], tb.bytes[' '])
			}
			tname := "?"
			if iv, ok := args.a[k].(iface); ok && iv.t != nil {
				tname = iv.t.String()
			}
			out = append(out, x.bytesOf(strVal{s: tname + "="})...)
			out = append(out, x.fmtArg('v', args.a[k])...)
		}
		out = append(out, tb.bytes[')'])
	}
	return x.mkStr(out)
}

// badVerb renders what fmt prints for a verb that does not apply to the argument: %!<verb>(<type>=<value>)
func (x *Exec) badVerb(verb *Term, a value) []*Term {
	tb := x.tb
	tname := "?"
	if iv, ok := a.(iface); ok && iv.t != nil {
		tname = iv.t.String()
	}
	out := []*Term{tb.bytes['%'], tb.bytes['!'], verb, tb.bytes['(']}
	out = append(out, x.bytesOf(strVal{s: tname + "="})...)
	out = append(out, x.fmtArg('v', a)...)
	return append(out, tb.bytes[')'])
}

// findMethod returns the exported method name of type t, or nil (LookupMethod panics when there is none).
func (x *Exec) findMethod(t types.Type, name string) *ssa.Function {
	sel := x.P.prog.MethodSets.MethodSet(t).Lookup(nil, name)
	if sel == nil {
		return nil
	}
	return x.P.prog.MethodValue(sel)
}

// hexDigits renders a non-negative value in base 16 (upper or lower case) without leading zeros,
// forking over the number of significant nibbles.
func (x *Exec) hexDigits(v *Term, upper bool) []*Term {
	tb := x.tb
	w := v.sort.W
	n := 1
	for ; n*4 < w; n++ {
		if x.branch(tb.Ult(v, tb.Const(w, uint64(1)<<(uint(n)*4)))) {
			break
		}
	}
	out := make([]*Term, n)
	a := byte('a')
	if upper {
		a = 'A'
	}
	for k := 0; k < n; k++ {
		lo := (n - 1 - k) * 4
		nib := tb.Zext(tb.Extract(v, lo+3, lo), 8)
		out[k] = tb.Ite(tb.Ult(nib, tb.Const(8, 10)), tb.Add(nib, tb.Const(8, '0')), tb.Add(nib, tb.Const(8, uint64(a-10))))
	}
	return out
}

func (x *Exec) fmtArg(verb byte, a value) []*Term {
	iv, ok := a.(iface)
	if !ok {
		return x.bytesOf(strVal{s: "?"})
	}
	switch v := iv.v.(type) {
	case strVal:
		if verb == 's' || verb == 'v' {
			return x.bytesOf(v)
		}
		if verb == 'x' || verb == 'X' {
			var out []*Term
			for _, b := range x.bytesOf(v) {
				hi := x.tb.Zext(x.tb.Extract(b, 7, 4), 8)
				lo := x.tb.Zext(x.tb.Extract(b, 3, 0), 8)
				a := byte('a')
				if verb == 'X' {
					a = 'A'
				}
				for _, nib := range []*Term{hi, lo} {
					out = append(out, x.tb.Ite(x.tb.Ult(nib, x.tb.Const(8, 10)), x.tb.Add(nib, x.tb.Const(8, '0')), x.tb.Add(nib, x.tb.Const(8, uint64(a-10)))))
				}
			}
			return out
		}
		if verb == 'q' {
			q := x.callSSA(nil, token.NoPos, x.P.prog.ImportedPackage("strconv").Func("Quote"), []value{v}, nil)
			return x.bytesOf(q.(strVal))
		}
		return x.badVerb(x.tb.bytes[verb], a)
	case *Term:
		if v.sort.K == KBV && (verb == 's' || verb == 'q' || verb == 'U' || verb == 'o' || verb == 'b' || verb == 'e' || verb == 'f' || verb == 'g' || verb == 't' || verb == 'p') {
			if verb == 's' || verb == 't' || verb == 'p' || verb == 'e' || verb == 'f' || verb == 'g' {
				return x.badVerb(x.tb.bytes[verb], a)
			}
			panic(unsupported{"fmt %" + string(verb) + " of an integer"})
		}
		if v.sort.K == KBV && (verb == 'x' || verb == 'X') {
			neg := false
			if isSigned(iv.t) && x.branch(x.tb.Slt(v, x.tb.Const(v.sort.W, 0))) {
				neg = true
				v = x.tb.Neg(v)
			}
			d := x.hexDigits(v, verb == 'X')
			if neg {
				d = append([]*Term{x.tb.bytes['-']}, d...)
			}
			return d
		}
		if v.sort.K == KBV && verb == 'c' {
			// a rune: the real utf8.AppendRune encodes it (invalid runes become U+FFFD there, as in fmt)
			r := v
			if r.sort.W > 32 {
				r = x.tb.Extract(r, 31, 0)
			} else if r.sort.W < 32 {
				r = x.tb.Zext(r, 32)
			}
			u8 := x.P.prog.ImportedPackage("unicode/utf8")
			res := x.callSSA(nil, token.NoPos, u8.Func("AppendRune"), []value{sliceVal{}, r}, nil).(sliceVal)
			out := make([]*Term, len(res.a))
			for k := range res.a {
				out[k] = res.a[k].(*Term)
			}
			return out
		}
		if v.sort.K == KBV && (verb == 'd' || verb == 'v') {
			if v.op == OConst {
				if isSigned(iv.t) {
					return x.bytesOf(strVal{s: strconv.FormatInt(v.sval(), 10)})
				}
				return x.bytesOf(strVal{s: strconv.FormatUint(v.u, 10)})
			}
			// a symbolic integer is rendered digit by digit only when it is known to lie in a small
			// non-negative range (each rendering forks over the digit count); otherwise — typically the
			// index inside a panic message — a placeholder stands in. A text with a placeholder that is later
			// inspected can only yield an unreproduced model (INCONCLUSIVE), never a reported violation.
			if lo, hi, ok := x.tb.urange(v); ok && hi < 100000 && lo <= hi && isSigned(iv.t) {
				w := v
				if w.sort.W < 64 {
					w = x.tb.Zext(w, 64)
				}
				return x.bytesOf(x.itoa(w))
			}
			return x.bytesOf(strVal{s: "<int>"})
		}
		if v.sort.K == KBool && v.op == OConst {
			return x.bytesOf(strVal{s: strconv.FormatBool(v.u == 1)})
		}
	case nil:
		if iv.t == nil {
			return x.bytesOf(strVal{s: "<nil>"})
		}
	}
	// error values: call Error()
	if iv.t != nil && (verb == 's' || verb == 'v') && x.P.prog.MethodSets.MethodSet(iv.t).Lookup(nil, "Error") != nil {
		if m := x.P.prog.LookupMethod(iv.t, nil, "Error"); m != nil {
			r := x.callSSA(nil, token.NoPos, m, []value{iv.v}, nil)
			if s, ok := r.(strVal); ok {
				return x.bytesOf(s)
			}
		}
	}
	return x.bytesOf(strVal{s: "?"})
}

// sameBacking: do two anytype lists / Go slices share their top-level backing store?
func (x *Exec) sameBacking(a, b value) bool {
	sa, ok1 := x.topSlice(a)
	sb, ok2 := x.topSlice(b)
	if !ok1 || !ok2 || cap(sa) == 0 || cap(sb) == 0 {
		return false
	}
	fa := sa[:cap(sa)]
	fb := sb[:cap(sb)]
	return &fa[cap(sa)-1] == &fb[cap(sb)-1]
}

func (x *Exec) topSlice(v value) ([]value, bool) {
	switch v := v.(type) {
	case iface:
		if v.t == nil {
			return nil, false
		}
		return x.topSlice(v.v)
	case sliceVal:
		return v.a, true
	case *value:
		if v == nil {
			return nil, false
		}
		if st, ok := (*v).(structure); ok {
			// the first slice-typed field of the struct (the implementation's element storage), whatever its name
			for _, f := range st {
				if sl, ok := f.(sliceVal); ok {
					return sl.a, true
				}
			}
		}
	}
	return nil, false
}

// renderObserved renders observed values under the current model for translator validation.
func (x *Exec) renderObserved(o observation) (string, bool) {
	var sb strings.Builder
	sb.WriteString(o.label)
	var terms []*Term
	var render func(v value) bool
	type hole struct{ kind string }
	var parts []interface{}
	render = func(v value) bool {
		switch v := v.(type) {
		case iface:
			if v.t == nil {
				parts = append(parts, "nil")
				return true
			}
			return render(v.v)
		case *Term:
			if v.sort.K == KFP {
				terms = append(terms, x.tb.FToBits(v))
				parts = append(parts, hole{fmt.Sprintf("f%d", v.sort.W)})
			} else if v.sort.K == KBool {
				terms = append(terms, v)
				parts = append(parts, hole{"b"})
			} else {
				terms = append(terms, v)
				parts = append(parts, hole{fmt.Sprintf("i%d", v.sort.W)})
			}
			return true
		case strVal:
			parts = append(parts, "\"")
			for _, b := range x.bytesOf(v) {
				terms = append(terms, b)
				parts = append(parts, hole{"x"})
			}
			parts = append(parts, "\"")
			return true
		}
		return false
	}
	for _, v := range o.vals {
		parts = append(parts, " ")
		if !render(v) {
			return "", false
		}
	}
	var vals []uint64
	if len(terms) > 0 {
		var err error
		vals, err = x.sol.GetValues(terms)
		if err != nil {
			return "", false
		}
	}
	k := 0
	for _, p := range parts {
		switch p := p.(type) {
		case string:
			sb.WriteString(p)
		case hole:
			v := vals[k]
			k++
			switch p.kind {
			case "b":
				sb.WriteString(strconv.FormatBool(v == 1))
			case "x":
				fmt.Fprintf(&sb, "%02x", v)
			case "f64":
				fmt.Fprintf(&sb, "f%016x", v)
			case "f32":
				fmt.Fprintf(&sb, "f%08x", v)
			case "i64":
				fmt.Fprintf(&sb, "%d", int64(v))
			case "i32":
				fmt.Fprintf(&sb, "%d", int32(v))
			case "i16":
				fmt.Fprintf(&sb, "%d", int16(v))
			case "i8":
				fmt.Fprintf(&sb, "%d", v)
			default:
				fmt.Fprintf(&sb, "%d", v)
			}
		}
	}
	return sb.String(), true
}

var _ = math.Abs
var _ *ssa.Function
