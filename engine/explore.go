package main

// Path exploration: deterministic re-execution with a decision trail. Every
// operation that consults the solver or picks among alternatives is one trail
// entry; replaying a prefix needs no solver call. The solver's assertion stack
// mirrors the trail (one push level per entry).

import (
	"fmt"
	"os"
	"runtime/debug"
	"sort"
	"strings"
	"sync"
	"sync/atomic"
	"time"

	"go/token"

	"golang.org/x/tools/go/ssa"
)

type entry struct {
	kind byte    // 'b' branch, 'c' choose, 'v' concretize, 'a' assume, 'A' assert
	opts []int64 // alternatives still to explore at this point (opts[cur] is the current one)
	cur  int
}

type job struct {
	harness string
	prefix  []entry
}

type Violation struct {
	Harness string           `json:"harness"`
	Msg     string           `json:"msg"`
	Inputs  []ReplayInput    `json:"inputs"`
	Kind    string           `json:"kind"` // "assert" | "panic" | "reach"
	Extra   map[string]string `json:"extra,omitempty"`
}

type ReplayInput struct {
	Kind string `json:"kind"`
	Bits uint64 `json:"bits"`
}

type observation struct {
	label string
	vals  []value
}

type Sample struct {
	Harness    string   `json:"harness"`
	Obligation string   `json:"obligation"`
	Verdict    string   `json:"verdict"`
	SolverMs   float64  `json:"solver_ms"`
	PathInputs int      `json:"path_inputs"`
	Decisions  []string `json:"decisions,omitempty"`
}

type PathVector struct {
	Harness  string        `json:"harness"`
	Inputs   []ReplayInput `json:"inputs"`
	Observes []string      `json:"observes"`
}

// Results is shared between workers (guarded by mu).
type Results struct {
	mu            sync.Mutex
	Paths         int64
	PathsDropped  int64
	PathsPanicked int64
	Instrs        int64
	InstrsTotal   int64
	Obligations   int64
	Discharged    int64
	Trivial       int64
	Violations    []Violation
	violKeys      map[string]int
	Inconclusive  []string
	Reach         map[string]map[string]int64 // harness -> label -> count
	Bounds        map[string]int64
	Funcs         map[string]int64
	FuncInstr     map[string]int
	Stubs         map[string]int64
	Samples       []Sample
	Vectors       []PathVector
	vecPerHarness map[string]int
	Solver        SolverStats
	Feasibility   int64
	CacheHits     int64
	AssertQueries int64
	PerHarness    map[string]*HarnessStats
	InitWarn      []string
	maxViolPerKey int
	maxViolHits   int // stop exploring once this many failing assertion instances were seen (the check is lost anyway; go to replay)
	violHits      int
	graceS        int
	stopFlag      int32
	StopWhy       string
	wantVectors   int
}

type HarnessStats struct {
	Paths       int64 `json:"paths"`
	Dropped     int64 `json:"dropped_by_assume"`
	Obligations int64 `json:"obligations"`
	Discharged  int64 `json:"discharged"`
	Violations  int64 `json:"violations"`
}

func NewResults() *Results {
	return &Results{violKeys: map[string]int{}, Reach: map[string]map[string]int64{}, Bounds: map[string]int64{}, Funcs: map[string]int64{}, FuncInstr: map[string]int{}, Stubs: map[string]int64{}, vecPerHarness: map[string]int{}, PerHarness: map[string]*HarnessStats{}, maxViolPerKey: 2, maxViolHits: 24, graceS: 45, wantVectors: 3}
}

func (r *Results) hs(h string) *HarnessStats {
	s := r.PerHarness[h]
	if s == nil {
		s = &HarnessStats{}
		r.PerHarness[h] = s
	}
	return s
}

func (r *Results) stopped() bool { return atomic.LoadInt32(&r.stopFlag) == 1 }

// stop ends the exploration at the next path boundary (wall budget).
func (r *Results) stop(why string) {
	if atomic.CompareAndSwapInt32(&r.stopFlag, 0, 1) {
		r.mu.Lock()
		r.StopWhy = why
		r.mu.Unlock()
	}
}

func (r *Results) inconclusive(msg string) {
	r.mu.Lock()
	defer r.mu.Unlock()
	for _, m := range r.Inconclusive {
		if m == msg {
			return
		}
	}
	if len(r.Inconclusive) < 50 {
		r.Inconclusive = append(r.Inconclusive, msg)
	}
}

// ---- decision primitives ----

func (x *Exec) newRegion() bool { return x.pos >= len(x.trail) }

// replayEntry consumes the next recorded entry, bringing the solver in sync.
func (x *Exec) replayEntry(kind byte, cond func(v int64) *Term) int64 {
	e := &x.trail[x.pos]
	if e.kind != kind {
		panic(fmt.Sprintf("trail divergence at %d: recorded %c, now %c (nondeterministic execution)", x.pos, e.kind, kind))
	}
	v := e.opts[e.cur]
	c := cond(v)
	if x.asserted == x.pos {
		x.sol.Push()
		if c != nil {
			x.sol.Assert(c)
		}
		x.asserted++
	}
	if c != nil {
		x.tb.Learn(c, true)
	}
	x.pos++
	return v
}

func (x *Exec) keepModelIf(c *Term) {
	if x.mdl == nil || c == nil {
		return
	}
	if v, ok := x.mdl.eval(c); !ok || v == 0 {
		x.mdl = nil
	}
}

func (x *Exec) pushEntry(kind byte, opts []int64, c *Term) {
	if kind != 'b' {
		x.keepModelIf(c)
	}
	x.trail = append(x.trail, entry{kind: kind, opts: opts})
	x.sol.Push()
	if c != nil {
		x.sol.Assert(c)
		x.tb.Learn(c, true)
	}
	x.asserted++
	x.pos++
	// work sharing: donate untried alternatives when the queue is hungry
	if len(opts) > 1 && x.R != nil && theQueue != nil && theQueue.hungry() {
		e := &x.trail[len(x.trail)-1]
		for _, alt := range opts[1:] {
			pre := make([]entry, len(x.trail))
			for i, pe := range x.trail {
				pre[i] = entry{kind: pe.kind, opts: []int64{pe.opts[pe.cur]}}
			}
			pre[len(pre)-1] = entry{kind: kind, opts: []int64{alt}}
			theQueue.put(job{harness: x.harness, prefix: pre})
		}
		e.opts = opts[:1]
	}
}

func (x *Exec) branch(c *Term) bool {
	if c.op == OConst {
		return c.u == 1
	}
	cond := func(v int64) *Term {
		if v == 1 {
			return c
		}
		return x.tb.Not(c)
	}
	if !x.newRegion() {
		return x.replayEntry('b', cond) == 1
	}
	var opts []int64
	if x.mdl != nil {
		if v, ok := x.mdl.eval(c); ok {
			// the current model satisfies the path condition, so the side it takes is feasible
			x.R.cacheHit()
			x.R.feas(1)
			other := x.tb.Not(c)
			if v == 0 {
				other = c
			}
			r := x.sol.CheckWith(other)
			if r == "unsat" {
				opts = []int64{int64(v)}
			} else {
				opts = []int64{int64(v), int64(v ^ 1)}
			}
			x.pushEntry('b', opts, cond(opts[0]))
			return opts[0] == 1
		}
	}
	x.R.feas(1)
	rT := x.checkFetch(c)
	if rT == "unsat" {
		opts = []int64{0}
	} else {
		x.R.feas(1)
		rF := x.sol.CheckWith(x.tb.Not(c))
		if rF == "unsat" {
			if rT == "unknown" {
				x.R.inconclusive("feasibility unknown with infeasible complement (kept)")
			}
			opts = []int64{1}
		} else {
			opts = []int64{1, 0}
		}
	}
	x.pushEntry('b', opts, cond(opts[0]))
	return opts[0] == 1
}

// checkFetch: CheckWith(c), and when the answer is sat, keep the model for later branches.
func (x *Exec) checkFetch(c *Term) string {
	x.sol.Push()
	x.sol.Assert(c)
	r := x.sol.Check()
	if r == "sat" {
		x.fetchModel()
	}
	x.sol.Pop(1)
	return r
}

func (x *Exec) fetchModel() {
	x.mdl = nil
	var ts []*Term
	for _, in := range x.inputs {
		if in.t.op == OVar {
			if _, ok := x.sol.declared[in.t.name]; ok {
				ts = append(ts, in.t)
			}
		}
	}
	for _, t := range x.auxVars {
		if _, ok := x.sol.declared[t.name]; ok {
			ts = append(ts, t)
		}
	}
	m := &model{vals: map[string]uint64{}, memo: map[*Term]evalRes{}}
	if len(ts) > 0 {
		vals, err := x.sol.GetValues(ts)
		if err != nil {
			return
		}
		for i, t := range ts {
			m.vals[t.name] = vals[i]
		}
	}
	// variables the solver has not seen yet are unconstrained: give them 0 and remember that choice
	for _, in := range x.inputs {
		if in.t.op == OVar {
			if _, ok := m.vals[in.t.name]; !ok {
				m.vals[in.t.name] = 0
			}
		}
	}
	for _, t := range x.auxVars {
		if _, ok := m.vals[t.name]; !ok {
			m.vals[t.name] = 0
		}
	}
	x.mdl = m
}

// choose picks one of n alternatives (no solver involved).
func (x *Exec) choose(n int, tag string) int {
	if n <= 1 {
		return 0
	}
	if !x.newRegion() {
		return int(x.replayEntry('c', func(int64) *Term { return nil }))
	}
	opts := make([]int64, n)
	for i := range opts {
		opts[i] = int64(i)
	}
	x.pushEntry('c', opts, nil)
	return 0
}

// concretize enumerates the feasible values of t (at most casemax) and forks over them.
func (x *Exec) concretize(t *Term, what string) int64 {
	if t.op == OConst {
		return t.sval()
	}
	cond := func(v int64) *Term { return x.tb.Eq(t, x.tb.Const(t.sort.W, uint64(v))) }
	if !x.newRegion() {
		return x.replayEntry('v', cond)
	}
	var vals []int64
	enumerate := func(window bool) bool {
		vals = vals[:0]
		x.sol.Push()
		if window {
			// the case-split bound was hit: keep the small values (where index/length slips live) and
			// report the rest as unexplored — the run can then still confirm a violation, never a success
			m2 := int64(-2)
			lo, hi := x.tb.Const(t.sort.W, uint64(m2)), x.tb.Const(t.sort.W, uint64(int64(x.casemax-3)))
			x.sol.Assert(x.tb.And(x.tb.Sle(lo, t), x.tb.Sle(t, hi)))
		}
		for {
			x.R.feas(1)
			r := x.sol.Check()
			if r == "unsat" {
				break
			}
			if r != "sat" {
				x.sol.Pop(1)
				panic(unsupported{"solver unknown while enumerating values of " + what})
			}
			vs, err := x.sol.GetValues([]*Term{t})
			if err != nil {
				x.sol.Pop(1)
				panic(unsupported{"get-value failed: " + err.Error()})
			}
			c := x.tb.Const(t.sort.W, vs[0])
			vals = append(vals, c.sval())
			if len(vals) > x.casemax {
				x.sol.Pop(1)
				return false
			}
			x.sol.Assert(x.tb.Not(x.tb.Eq(t, c)))
		}
		return true
	}
	if !enumerate(false) {
		// for an index (bounded by the indexed table anyway) also keep some of the values the solver offered
		// on its own: they tend to lie far from zero, where the small window does not look
		var extra []int64
		if strings.HasPrefix(what, "index") {
			extra = append(extra, vals[:12]...)
		}
		x.R.inconclusive(fmt.Sprintf("%s: more than %d feasible values for %s (case-split bound); only the values in [-2,%d], two probes up to 4096%s were explored", x.harness, x.casemax, what, x.casemax-3, map[bool]string{true: " and 12 solver-chosen ones", false: ""}[len(extra) > 0]))
		// two probes above the window, still small enough to be used as a length or count
		x.sol.Push()
		x.sol.Assert(x.tb.And(x.tb.Sle(x.tb.Const(t.sort.W, uint64(x.casemax-2)), t), x.tb.Sle(t, x.tb.Const(t.sort.W, 4096))))
		for k := 0; k < 2; k++ {
			x.R.feas(1)
			if x.sol.Check() != "sat" {
				break
			}
			vs, err := x.sol.GetValues([]*Term{t})
			if err != nil {
				break
			}
			c := x.tb.Const(t.sort.W, vs[0])
			extra = append(extra, c.sval())
			x.sol.Assert(x.tb.Not(x.tb.Eq(t, c)))
		}
		x.sol.Pop(1)
		if !enumerate(true) {
			panic(unsupported{fmt.Sprintf("more than %d feasible values for %s (case-split bound)", x.casemax, what)})
		}
		for _, e := range extra {
			dup := false
			for _, v := range vals {
				dup = dup || v == e
			}
			if !dup {
				vals = append(vals, e)
			}
		}
	}
	x.sol.Pop(1)
	if len(vals) == 0 {
		panic(pathEnd{"infeasible at concretize"})
	}
	sort.Slice(vals, func(i, j int) bool { return vals[i] < vals[j] })
	x.pushEntry('v', vals, cond(vals[0]))
	return vals[0]
}

func (x *Exec) assume(c *Term) {
	if c.op == OConst {
		if c.u == 1 {
			return
		}
		panic(pathEnd{"assume false"})
	}
	if !x.newRegion() {
		x.replayEntry('a', func(int64) *Term { return c })
		return
	}
	if x.mdl != nil {
		if v, ok := x.mdl.eval(c); ok && v == 1 {
			x.R.cacheHit()
			x.pushEntry('a', []int64{1}, c)
			return
		}
	}
	x.R.feas(1)
	r := x.checkFetch(c)
	if r == "unsat" {
		panic(pathEnd{"assume infeasible"})
	}
	x.pushEntry('a', []int64{1}, c)
}

func (x *Exec) assertT(c *Term, msg string) {
	R := x.R
	if c.op == OConst && c.u == 1 {
		if x.newRegion() {
			R.mu.Lock()
			R.Obligations++
			R.Discharged++
			R.Trivial++
			h := R.hs(x.harness)
			h.Obligations++
			h.Discharged++
			R.mu.Unlock()
		}
		return
	}
	if !x.newRegion() {
		x.replayEntry('A', func(int64) *Term { return c })
		return
	}
	t0 := time.Now()
	var res string
	neg := x.tb.Not(c)
	var viol *Violation
	x.sol.SetTimeout(x.assertTimeout)
	if c.op == OConst {
		// constant false: any model of the path condition is a counterexample
		res = x.sol.Check()
	} else {
		x.sol.Push()
		x.sol.Assert(neg)
		res = x.sol.Check()
	}
	x.sol.SetTimeout(x.feasTimeout)
	atomic.AddInt64(&R.AssertQueries, 1)
	if res == "sat" && (len(x.ffApps) > 0 || len(x.pfApps) > 0) && os.Getenv("GOSMT_REFINE") != "" {
		// (experimental, off by default: the refined queries mostly come back unknown on z3 4.8.12)
		if c.op == OConst {
			x.sol.Push()
		}
		// best effort: the unrefined model is a candidate already (native replay decides); a refined model
		// replaces it, a refutation (unsat under true facts about strconv) removes it
		viol = x.buildViolation(msg, "assert")
		switch x.refineFloatText() {
		case "sat":
			if v2 := x.buildViolation(msg, "assert"); v2 != nil {
				viol = v2
			}
		case "unsat":
			viol = nil
			res = "unsat"
		}
		if c.op == OConst {
			x.sol.Pop(1)
		}
	} else if res == "sat" {
		viol = x.buildViolation(msg, "assert")
	}
	if c.op != OConst {
		x.sol.Pop(1)
	}
	ms := float64(time.Since(t0).Microseconds()) / 1000
	R.mu.Lock()
	R.Obligations++
	h := R.hs(x.harness)
	h.Obligations++
	switch res {
	case "unsat":
		R.Discharged++
		h.Discharged++
		if len(R.Samples) < 12 || (ms > 50 && len(R.Samples) < 24) {
			R.Samples = append(R.Samples, Sample{Harness: x.harness, Obligation: msg, Verdict: "unsat (holds on this path for all inputs)", SolverMs: ms, PathInputs: len(x.inputs), Decisions: x.trailSummary()})
		}
	case "sat":
		h.Violations++
	}
	R.mu.Unlock()
	switch res {
	case "unsat":
	case "sat":
		if viol != nil {
			R.addViolation(*viol)
		}
	default:
		R.inconclusive(fmt.Sprintf("solver answered unknown on assertion %q in %s (%s)", msg, x.harness, x.sol.lastErr))
	}
	// continue under the assumption that the assertion holds
	if c.op == OConst {
		panic(pathEnd{"assert false"})
	}
	x.R.feas(1)
	if x.sol.CheckWith(c) == "unsat" {
		// nothing left on this path
		x.trail = append(x.trail, entry{kind: 'A', opts: []int64{1}})
		x.sol.Push()
		x.asserted++
		x.pos++
		panic(pathEnd{"assertion fails on the whole path"})
	}
	x.pushEntry('A', []int64{1}, c)
}

func (x *Exec) trailSummary() []string {
	var out []string
	for i, e := range x.trail {
		if i >= 24 {
			out = append(out, "…")
			break
		}
		out = append(out, fmt.Sprintf("%c%d", e.kind, e.opts[e.cur]))
	}
	return out
}

func (R *Results) feas(n int64) { atomic.AddInt64(&R.Feasibility, n) }
func (R *Results) cacheHit()    { atomic.AddInt64(&R.CacheHits, 1) }

func (R *Results) addViolation(v Violation) {
	R.mu.Lock()
	defer R.mu.Unlock()
	key := v.Harness + "|" + v.Msg
	R.violHits++
	if R.violHits == 1 && R.graceS > 0 {
		// the check is lost from here on: give the exploration a grace period to collect further
		// counterexample classes, then stop and go to native replay
		g := R.graceS
		time.AfterFunc(time.Duration(g)*time.Second, func() {
			R.stop(fmt.Sprintf("exploration stopped %d s after the first failing assertion (counterexamples go to native replay)", g))
		})
	}
	if R.violHits >= R.maxViolHits && atomic.CompareAndSwapInt32(&R.stopFlag, 0, 1) {
		R.StopWhy = fmt.Sprintf("exploration stopped after %d failing assertion instances (counterexamples go to native replay)", R.violHits)
	}
	if R.violKeys[key] >= R.maxViolPerKey {
		R.violKeys[key]++
		return
	}
	R.violKeys[key]++
	R.Violations = append(R.Violations, v)
}

// buildViolation reads the model (solver must be in a sat state).
func (x *Exec) buildViolation(msg, kind string) *Violation {
	ins, err := x.modelInputs()
	if err != nil {
		x.R.inconclusive("model extraction failed: " + err.Error())
		return nil
	}
	return &Violation{Harness: x.harness, Msg: msg, Inputs: ins, Kind: kind}
}

func (x *Exec) modelInputs() ([]ReplayInput, error) {
	var ts []*Term
	var idx []int
	out := make([]ReplayInput, len(x.inputs))
	for i, in := range x.inputs {
		out[i].Kind = in.kind
		if in.t.op == OConst {
			out[i].Bits = in.t.u
			continue
		}
		if _, ok := x.sol.declared[in.t.name]; ok {
			ts = append(ts, in.t)
			idx = append(idx, i)
		}
	}
	if len(ts) > 0 {
		vals, err := x.sol.GetValues(ts)
		if err != nil {
			return nil, err
		}
		for j, i := range idx {
			out[i].Bits = vals[j]
		}
	}
	return out, nil
}

// ---- work queue ----

type workQueue struct {
	mu      sync.Mutex
	cond    *sync.Cond
	jobs    []job
	active  int
	workers int
	closed  bool
}

var theQueue *workQueue

func newQueue(workers int) *workQueue {
	q := &workQueue{workers: workers}
	q.cond = sync.NewCond(&q.mu)
	return q
}

func (q *workQueue) hungry() bool {
	q.mu.Lock()
	defer q.mu.Unlock()
	return len(q.jobs) < q.workers
}

func (q *workQueue) put(j job) {
	q.mu.Lock()
	q.jobs = append(q.jobs, j)
	q.mu.Unlock()
	q.cond.Signal()
}

// get blocks until a job is available or all work is done.
func (q *workQueue) get() (job, bool) {
	q.mu.Lock()
	defer q.mu.Unlock()
	for {
		if len(q.jobs) > 0 {
			// shortest prefix first: whole harnesses before donated subtrees (fairness between harnesses)
			best := 0
			for k := range q.jobs {
				if len(q.jobs[k].prefix) < len(q.jobs[best].prefix) {
					best = k
				}
			}
			j := q.jobs[best]
			q.jobs[best] = q.jobs[len(q.jobs)-1]
			q.jobs = q.jobs[:len(q.jobs)-1]
			q.active++
			return j, true
		}
		if q.active == 0 || q.closed {
			q.cond.Broadcast()
			return job{}, false
		}
		q.cond.Wait()
	}
}

func (q *workQueue) done() {
	q.mu.Lock()
	q.active--
	if q.active == 0 && len(q.jobs) == 0 {
		q.cond.Broadcast()
	}
	q.mu.Unlock()
}

// ---- running ----

func (x *Exec) resetPath() {
	x.pos = 0
	x.inputs = x.inputs[:0]
	x.nvars = 0
	x.depth = 0
	x.steps = 0
	x.observes = x.observes[:0]
	x.reached = map[string]bool{}
	x.mapOrder = 1
	x.unwind = x.unwind0
	x.mapRot = -1
	x.mapWalks = 0
	x.mdl = nil
	x.auxVars = x.auxVars[:0]
	x.stubCache = map[stubKey]strVal{}
	x.tb.known = map[*Term][2]uint64{}
	x.tb.rmemo = map[*Term][2]uint64{}
	x.nextMap = 0
	x.fileData = map[string]fileStub{}
	x.hb = nil
	x.syncs = nil
	x.unsafeT = nil
	x.procs = 0
	x.ffApps = x.ffApps[:0]
	x.pfApps = x.pfApps[:0]
	x.raceMsgs = nil
	x.wtrack = nil
	x.wtrackM = nil
	x.sched = nil
	x.tb.MaybeReset()
}

// runJob explores the subtree below job.prefix depth first.
func (x *Exec) runJob(j job, fn *ssa.Function) {
	x.harness = j.harness
	x.trail = append(x.trail[:0], j.prefix...)
	if x.asserted > 0 {
		x.sol.Pop(x.asserted)
	}
	x.asserted = 0
	for {
		x.runPath(fn)
		if x.R.stopped() {
			break
		}
		// backtrack
		i := len(x.trail) - 1
		for i >= 0 && x.trail[i].cur+1 >= len(x.trail[i].opts) {
			i--
		}
		if i < 0 {
			break
		}
		if x.asserted > i {
			x.sol.Pop(x.asserted - i)
			x.asserted = i
		}
		x.trail = x.trail[:i+1]
		x.trail[i].cur++
	}
	if x.asserted > 0 {
		x.sol.Pop(x.asserted)
		x.asserted = 0
	}
}

func (x *Exec) runPath(fn *ssa.Function) {
	x.resetPath()
	R := x.R
	status := "ok"
	var why string
	func() {
		defer func() {
			if r := recover(); r != nil {
				switch p := r.(type) {
				case pathEnd:
					status = "dropped"
					why = p.why
				case unsupported:
					status = "unsupported"
					why = p.why
				case targetPanic:
					status = "panic"
					why = p.msg
				default:
					status = "bug"
					why = fmt.Sprintf("%v\n%s", r, debug.Stack())
				}
				if x.sched != nil {
					x.sched.killAll()
				}
			}
		}()
		x.reinitOwnGlobals()
		x.callSSA(nil, token.NoPos, fn, nil, nil)
		if x.sched != nil {
			x.sched.finish(x)
		}
	}()
	switch status {
	case "unsupported":
		R.inconclusive(fmt.Sprintf("%s: %s", x.harness, why))
	case "bug":
		R.inconclusive(fmt.Sprintf("%s: engine error: %s", x.harness, why))
		if os.Getenv("GOSMT_DEBUG") != "" {
			fmt.Fprintln(os.Stderr, why)
		}
	case "panic":
		// a panic escaping the harness is a failed implicit assertion "no unexpected panic"
		if x.sol.Check() == "sat" {
			if v := x.buildViolation("unexpected panic: "+why, "panic"); v != nil {
				R.addViolation(*v)
			}
		}
	case "ok":
		// sample some completed paths for translator validation
		x.maybeVector()
	}
	R.mu.Lock()
	R.Paths++
	h := R.hs(x.harness)
	h.Paths++
	switch status {
	case "dropped":
		if strings.HasPrefix(why, "assume") || strings.HasPrefix(why, "infeasible") {
			R.PathsDropped++
			h.Dropped++
		}
	case "panic":
		R.PathsPanicked++
		h.Violations++
	}
	R.InstrsTotal += x.steps
	if status == "ok" || status == "panic" {
		rm := R.Reach[x.harness]
		if rm == nil {
			rm = map[string]int64{}
			R.Reach[x.harness] = rm
		}
		for l := range x.reached {
			rm[l]++
		}
	}
	for k, v := range x.bounds {
		R.Bounds[k] = v
	}
	R.mu.Unlock()
}

// maybeVector records a concrete model of a completed path plus the values the
// harness observed under it; the native run must reproduce them.
func (x *Exec) maybeVector() {
	R := x.R
	R.mu.Lock()
	n := R.vecPerHarness[x.harness]
	want := n < R.wantVectors
	if want {
		R.vecPerHarness[x.harness] = n + 1
	}
	R.mu.Unlock()
	if !want {
		return
	}
	if x.sol.Check() != "sat" {
		return
	}
	ins, err := x.modelInputs()
	if err != nil {
		return
	}
	var obs []string
	for _, o := range x.observes {
		s, ok := x.renderObserved(o)
		if !ok {
			obs = nil
			break
		}
		obs = append(obs, s)
	}
	R.mu.Lock()
	R.Vectors = append(R.Vectors, PathVector{Harness: x.harness, Inputs: ins, Observes: obs})
	R.mu.Unlock()
}

// worker loop
func worker(id int, P *Program, q *workQueue, R *Results, cfg Config, wg *sync.WaitGroup) {
	defer wg.Done()
	logPath := ""
	if cfg.SolverLog != "" {
		logPath = fmt.Sprintf("%s.%d", cfg.SolverLog, id)
	}
	sol, err := NewSolver(cfg.Solver, cfg.TimeoutMs, logPath)
	if err != nil {
		R.inconclusive("cannot start solver: " + err.Error())
		return
	}
	defer sol.Close()
	x := newExec(P, sol, R, cfg)
	R.mu.Lock()
	if len(R.InitWarn) == 0 {
		R.InitWarn = x.initWarn
	}
	R.mu.Unlock()
	for {
		j, ok := q.get()
		if !ok {
			break
		}
		fn := P.pkg.Func(j.harness)
		if R.stopped() {
			// drain
		} else if fn == nil {
			R.inconclusive("no such harness: " + j.harness)
		} else {
			x.runJob(j, fn)
		}
		q.done()
		if sol.dead {
			R.inconclusive("solver process died")
			// restart
			sol.Close()
			sol, err = NewSolver(cfg.Solver, cfg.TimeoutMs, logPath)
			if err != nil {
				return
			}
			x.sol = sol
			x.asserted = 0
		}
	}
	R.mu.Lock()
	for f, n := range x.funcsSeen {
		name := f.String()
		R.Funcs[name] += n
		if _, ok := R.FuncInstr[name]; !ok {
			c := 0
			for _, b := range f.Blocks {
				c += len(b.Instrs)
			}
			R.FuncInstr[name] = c
		}
	}
	for s, n := range x.stubsSeen {
		R.Stubs[s] += n
	}
	st := x.sol.Stats
	R.Solver.Queries += st.Queries
	R.Solver.Sat += st.Sat
	R.Solver.Unsat += st.Unsat
	R.Solver.Unknown += st.Unknown
	R.Solver.Errors += st.Errors
	R.Solver.Seconds += st.Seconds
	if st.MaxQuery > R.Solver.MaxQuery {
		R.Solver.MaxQuery = st.MaxQuery
	}
	R.mu.Unlock()
}

type Config struct {
	Solver    string
	TimeoutMs int
	Tier      int
	Unwind    int
	StepLimit int64
	CaseMax   int
	Workers   int
	SolverLog string
	Trace     bool
}

func newExec(P *Program, sol *Solver, R *Results, cfg Config) *Exec {
	x := &Exec{P: P, tb: NewTB(), sol: sol, R: R, tier: cfg.Tier, feasTimeout: cfg.TimeoutMs, assertTimeout: 2 * cfg.TimeoutMs, unwind: cfg.Unwind, unwind0: cfg.Unwind, stepLimit: cfg.StepLimit, casemax: cfg.CaseMax, trace: cfg.Trace,
		funcsSeen: map[*ssa.Function]int64{}, stubsSeen: map[string]int64{}, bounds: map[string]int64{}}
	if rt := P.prog.ImportedPackage("runtime"); rt != nil {
		x.rtErrType = rt.Type("errorString").Object().Type()
	}
	if ep := P.prog.ImportedPackage("errors"); ep != nil {
		x.errStrType = ep.Type("errorString").Object().Type()
	}
	x.stepLimit = 1 << 40
	x.initGlobals()
	x.stepLimit = cfg.StepLimit
	return x
}
