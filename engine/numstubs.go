package main

// Class C contract stubs (DESIGN.md §3): decimal <-> binary conversions that no
// solver here can decide are replaced by their documented contract.
//
//   strconv.Itoa / FormatInt(x,10): fresh digit bytes tied to x by the positional sum.
//   strconv.FormatFloat(x,'f'|'e',-1,64): shape contract + PF(text) = x.
//   strconv.ParseFloat(s,64): syntax decided by the REAL strconv.special/readFloat SSA,
//                             value = PF(s) (uninterpreted), range errors assumed away.

import (
	"fmt"
	"go/token"
	"go/types"
	"math"
	"strconv"
	"sync"
)

var runePredMu sync.Mutex

var pow10u = func() [20]uint64 {
	var p [20]uint64
	p[0] = 1
	for i := 1; i < 20; i++ {
		p[i] = p[i-1] * 10
	}
	return p
}()

// axiom adds a definitional constraint over fresh variables (always satisfiable,
// so no feasibility query is needed).
func (x *Exec) axiom(c *Term) {
	if c.op == OConst && c.u == 1 {
		return
	}
	if !x.newRegion() {
		x.replayEntry('x', func(int64) *Term { return c })
		return
	}
	x.pushEntry('x', []int64{1}, c)
}

// decimalDigits returns fresh bytes d[0..L) with '0'<=d<='9', no leading zero (unless L==1),
// and abs == sum d[i]*10^(L-1-i); L is found by forking on the magnitude of abs (1..maxDigits).
func (x *Exec) decimalDigits(abs *Term, maxDigits int) []*Term {
	tb := x.tb
	L := 1
	for L < maxDigits {
		if x.branch(tb.Ult(abs, tb.Const(64, pow10u[L]))) {
			break
		}
		L++
	}
	ds := make([]*Term, L)
	sum := tb.Const(64, 0)
	cons := tb.True()
	for i := 0; i < L; i++ {
		d := x.auxVar(BV(8))
		ds[i] = d
		lo := byte('0')
		if i == 0 && L > 1 {
			lo = '1'
		}
		cons = tb.And(cons, tb.And(tb.Ule(tb.bytes[lo], d), tb.Ule(d, tb.bytes['9'])))
		dv := tb.Zext(tb.Sub(d, tb.bytes['0']), 64)
		sum = tb.Add(sum, tb.Mul(dv, tb.Const(64, pow10u[L-1-i])))
	}
	cons = tb.And(cons, tb.Eq(sum, abs))
	x.axiom(cons)
	return ds
}

type stubKey struct {
	t    *Term
	verb byte
}

// itoa / formatFloat are functions: the same argument yields the same text within a path.
func (x *Exec) itoa(v *Term) strVal {
	if v.op == OConst {
		return strVal{s: strconv.FormatInt(v.sval(), 10)}
	}
	k := stubKey{v, 'd'}
	if r, ok := x.stubCache[k]; ok {
		return r
	}
	r := x.itoa1(v)
	x.stubCache[k] = r
	return r
}

func (x *Exec) itoa1(v *Term) strVal {
	tb := x.tb
	if x.branch(tb.Eq(v, tb.Const(64, 1<<63))) {
		return strVal{s: "-9223372036854775808"}
	}
	neg := x.branch(tb.Slt(v, tb.Const(64, 0)))
	abs := v
	if neg {
		abs = tb.Neg(v)
	}
	ds := x.decimalDigits(abs, 19)
	if neg {
		ds = append([]*Term{tb.bytes['-']}, ds...)
	}
	return x.mkStr(ds)
}

// stripDotZero: decimal notation fact — "D.0" denotes the same number as "D" when D is an optional '-' and digits
func (x *Exec) stripDotZero(bs []*Term) ([]*Term, bool) {
	if n := len(bs); n >= 3 && bs[n-1].op == OConst && bs[n-1].u == '0' && bs[n-2].op == OConst && bs[n-2].u == '.' {
		for i, b := range bs[:n-2] {
			if i == 0 && b.op == OConst && b.u == '-' && n > 3 {
				continue
			}
			lo, hi, _ := x.tb.urange(b)
			if lo < '0' || hi > '9' {
				return bs, false
			}
		}
		return bs[:n-2], true
	}
	return bs, false
}

func (x *Exec) pf(bs []*Term) *Term {
	bs, _ = x.stripDotZero(bs)
	// decimal notation fact: the exponent marker is case-insensitive ("1E+06" denotes what "1e+06" denotes)
	norm := make([]*Term, len(bs))
	for i, b := range bs {
		if b.op == OConst {
			if b.u == 'E' {
				b = x.tb.bytes['e']
			}
		} else if lo, hi, _ := x.tb.urange(b); lo <= 'E' && 'E' <= hi {
			b = x.tb.Ite(x.tb.Eq(b, x.tb.bytes['E']), x.tb.bytes['e'], b)
		}
		norm[i] = b
	}
	bs = norm
	// pack bytes into one bit-vector argument
	var arg *Term
	for _, b := range bs {
		if arg == nil {
			arg = b
		} else {
			arg = x.tb.Concat(arg, b)
		}
	}
	// the contract function yields the IEEE bit pattern; equalities about it stay in bit-vector logic
	res := x.tb.FFromBits(x.tb.UF(fmt.Sprintf("pf%d", len(bs)), BV(64), arg))
	if len(x.pfApps) < 64 {
		x.pfApps = append(x.pfApps, pfApp{bytes: append([]*Term{}, bs...), res: res})
	}
	return res
}

func (x *Exec) formatFloat(f *Term, verb byte) strVal {
	if f.op == OConst {
		return strVal{s: strconv.FormatFloat(f.f64(), verb, -1, 64)}
	}
	k := stubKey{f, verb}
	if r, ok := x.stubCache[k]; ok {
		return r
	}
	r := x.formatFloat1(f, verb)
	x.stubCache[k] = r
	return r
}

func (x *Exec) formatFloat1(f *Term, verb byte) strVal {
	tb := x.tb
	if x.branch(tb.fun(OFIsNaN, f)) {
		return strVal{s: "NaN"}
	}
	zero := tb.F64(0)
	negT := tb.Eq(tb.Extract(tb.FToBits(f), 63, 63), tb.Const(1, 1))
	if x.branch(tb.fun(OFIsInf, f)) {
		if x.branch(negT) {
			return strVal{s: "-Inf"}
		}
		return strVal{s: "+Inf"}
	}
	neg := x.branch(negT)
	abs := tb.fun(OFAbs, f)
	var out []*Term
	if neg {
		out = append(out, tb.bytes['-'])
	}
	fracMax := x.bound("FLTFRAC", 2)
	digit := func(lo byte) *Term {
		d := x.auxVar(BV(8))
		x.axiom(tb.And(tb.Ule(tb.bytes[lo], d), tb.Ule(d, tb.bytes['9'])))
		return d
	}
	switch verb {
	case 'f':
		// shape contract: -?(0|[1-9][0-9]*)(\.[0-9]*[1-9])? with a fraction iff x is not integral.
		// The digits are fresh (tied to x only by the round-trip contract PF(text) = x); the length
		// of the integer part is an arbitrary choice up to FLTINT digits.
		integral := x.branch(tb.fcmp(OFEq, tb.fun(OFRoundRTZ, abs), abs))
		ipMax := x.bound("FLTINT", 7)
		L := 1 + x.choose(int(ipMax), "int-len")
		if L == 1 {
			d := digit('0')
			// a one-digit integer part is 0 exactly when |x| < 1
			x.axiom(tb.Eq(tb.Eq(d, tb.bytes['0']), tb.fcmp(OFLt, abs, tb.F64(1))))
			out = append(out, d)
		} else {
			x.axiom(tb.fcmp(OFLe, tb.F64(1), abs))
			out = append(out, digit('1'))
			for i := 1; i < L; i++ {
				out = append(out, digit('0'))
			}
		}
		if !integral {
			out = append(out, tb.bytes['.'])
			F := 1 + x.choose(int(fracMax), "frac-len")
			for i := 0; i < F; i++ {
				lo := byte('0')
				if i == F-1 {
					lo = '1'
				}
				out = append(out, digit(lo))
			}
		}
	case 'e', 'E':
		if x.branch(tb.fcmp(OFEq, abs, zero)) {
			out = append(out, x.bytesOf(strVal{s: "0" + string(verb) + "+00"})...)
			break
		}
		out = append(out, digit('1'))
		M := x.choose(int(fracMax)+1, "mant-len")
		if M > 0 {
			out = append(out, tb.bytes['.'])
			for i := 0; i < M; i++ {
				lo := byte('0')
				if i == M-1 {
					lo = '1'
				}
				out = append(out, digit(lo))
			}
		}
		out = append(out, tb.bytes[verb])
		if x.branch(tb.fcmp(OFLe, tb.F64(1), abs)) {
			out = append(out, tb.bytes['+'])
		} else {
			out = append(out, tb.bytes['-'])
		}
		E := 2 + x.choose(2, "exp-len")
		// the exponent has three digits exactly when |x| >= 1e100 or |x| < 1e-99 (a true fact about the
		// printed form: at least two exponent digits, no superfluous ones)
		big := tb.Or(tb.fcmp(OFLe, tb.F64(1e100), abs), tb.fcmp(OFLt, abs, tb.F64(1e-99)))
		if E == 3 {
			x.axiom(big)
		} else {
			x.axiom(tb.Not(big))
		}
		for i := 0; i < E; i++ {
			lo := byte('0')
			if i == 0 && E == 3 {
				lo = '1'
			}
			out = append(out, digit(lo))
		}
	default:
		panic(unsupported{"FormatFloat verb " + string(verb)})
	}
	// round-trip contract: the text denotes x
	x.axiom(tb.Eq(tb.FToBits(x.pf(out)), tb.FToBits(f)))
	x.ffApps = append(x.ffApps, ffApp{f: f, verb: verb, text: append([]*Term{}, out...)})
	return x.mkStr(out)
}

// ffApp / pfApp record the applications of the float-text contract on the current path, for refinement.
type ffApp struct {
	f    *Term
	verb byte
	text []*Term
}

type pfApp struct {
	bytes []*Term
	res   *Term
}

// refineFloatText is called when the solver has a model that violates an assertion. The float-text contract
// is loose (the digits are not tied to the value), so the model may pair a float with a text the linked
// library would never print, or a text with a value it would never parse. For every application of the
// contract on this path the real strconv function is evaluated on the model's concrete argument and the true
// result is asserted as a fact (true statements about the library: they can only remove spurious models);
// then the solver is asked again. Returns the final verdict for the query.
func (x *Exec) refineFloatText() string {
	tb := x.tb
	for iter := 0; iter < 8; iter++ {
		changed := false
		for _, a := range x.ffApps {
			ts := append([]*Term{tb.FToBits(a.f)}, a.text...)
			vals, err := x.sol.GetValues(ts)
			if err != nil {
				return "unknown"
			}
			fv := math.Float64frombits(vals[0])
			real := strconv.FormatFloat(fv, a.verb, -1, 64)
			same := len(real) == len(a.text)
			for i := 0; same && i < len(real); i++ {
				same = byte(vals[1+i]) == real[i]
			}
			if same {
				continue
			}
			changed = true
			// repair the pairing from the text side: the model's text t is printed by exactly one float
			// (ParseFloat(t), if t is that float's shortest form) or by none
			txt := make([]byte, len(a.text))
			for i := range txt {
				txt[i] = byte(vals[1+i])
			}
			textIs := tb.True()
			for i := range a.text {
				textIs = tb.And(textIs, tb.Eq(a.text[i], tb.bytes[txt[i]]))
			}
			rv, perr := strconv.ParseFloat(string(txt), 64)
			if perr == nil && strconv.FormatFloat(rv, a.verb, -1, 64) == string(txt) {
				pair := tb.And(textIs, tb.Eq(tb.FToBits(a.f), tb.Const(64, math.Float64bits(rv))))
				x.sol.Push()
				x.sol.Assert(pair)
				x.R.feas(1)
				r := x.sol.Check()
				x.sol.Pop(1)
				if r == "sat" {
					x.sol.Assert(pair) // a real (value, text) pair under which the assertion still fails
				} else if r == "unsat" {
					x.sol.Assert(tb.Not(textIs)) // the only float that prints t does not violate: t is out
				} else {
					return "unknown"
				}
			} else {
				x.sol.Assert(tb.Not(textIs)) // no float prints this text
			}
			break // one repair per round, then ask again
		}
		for _, a := range x.pfApps {
			ts := append([]*Term{tb.FToBits(a.res)}, a.bytes...)
			vals, err := x.sol.GetValues(ts)
			if err != nil {
				return "unknown"
			}
			txt := make([]byte, len(a.bytes))
			for i := range txt {
				txt[i] = byte(vals[1+i])
			}
			rv, perr := strconv.ParseFloat(string(txt), 64)
			if perr != nil || math.Float64bits(rv) == vals[0] {
				continue
			}
			changed = true
			eq := tb.True()
			for i := range a.bytes {
				eq = tb.And(eq, tb.Eq(a.bytes[i], tb.bytes[txt[i]]))
			}
			x.sol.Assert(tb.Implies(eq, tb.Eq(tb.FToBits(a.res), tb.Const(64, math.Float64bits(rv)))))
		}
		if !changed {
			return "sat"
		}
		x.R.feas(1)
		if r := x.sol.Check(); r != "sat" {
			return r
		}
	}
	return "unknown"
}

func (x *Exec) bound(name string, def int64) int64 {
	if v, ok := x.bounds[x.harness+"."+name]; ok {
		return v
	}
	return def
}

func (x *Exec) mkErr(msg string) iface {
	cell := value(structure{strVal{s: msg}})
	return iface{t: types.NewPointer(x.errStrType), v: &cell}
}

func registerNumberStubs(reg func(string, intrinsic)) {
	reg("strconv.Itoa", func(x *Exec, fr *frame, args []value) value { return x.itoa(args[0].(*Term)) })
	reg("strconv.FormatInt", func(x *Exec, fr *frame, args []value) value {
		base := args[1].(*Term)
		if base.op != OConst || base.u != 10 {
			if v := args[0].(*Term); v.op == OConst && base.op == OConst {
				return strVal{s: strconv.FormatInt(v.sval(), int(base.u))}
			}
			panic(unsupported{"FormatInt with base != 10"})
		}
		return x.itoa(args[0].(*Term))
	})
	reg("strconv.FormatFloat", func(x *Exec, fr *frame, args []value) value {
		f := args[0].(*Term)
		verb := args[1].(*Term)
		prec := args[2].(*Term)
		bits := args[3].(*Term)
		if verb.op != OConst || prec.op != OConst || bits.op != OConst {
			panic(unsupported{"FormatFloat with symbolic format arguments"})
		}
		if f.op == OConst {
			return strVal{s: strconv.FormatFloat(f.f64(), byte(verb.u), int(prec.sval()), int(bits.u))}
		}
		if prec.sval() < -1 || (bits.u != 64 && bits.u != 32) {
			panic(unsupported{"FormatFloat: only bit size 64 or 32 is modelled"})
		}
		tb := x.tb
		if prec.sval() >= 0 {
			// a fixed number of digits: the text denotes some float y of the same sign and class, not
			// necessarily f itself (which y — the rounding — is library contract; a candidate built on this
			// loose contract is replayed against the real function before it is reported)
			y := x.auxVar(SF64)
			x.axiom(tb.Eq(tb.fun(OFIsInf, y), tb.fun(OFIsInf, f)))
			x.axiom(tb.Eq(tb.fun(OFIsNaN, y), tb.fun(OFIsNaN, f)))
			x.axiom(tb.Eq(tb.Extract(tb.FToBits(y), 63, 63), tb.Extract(tb.FToBits(f), 63, 63)))
			f = y
		}
		if bits.u == 32 {
			// shortest text that identifies float32(f): it denotes some float64 y with float32(y) == float32(f)
			// (which y — the digits — is library contract; the real function is consulted when a model is replayed)
			y := x.auxVar(SF64)
			x.axiom(tb.Eq(tb.FToBits(tb.FCvt(y, SF32)), tb.FToBits(tb.FCvt(f, SF32))))
			x.axiom(tb.Eq(tb.fun(OFIsInf, y), tb.fun(OFIsInf, f)))
			f = y
		}
		v := byte(verb.u)
		if v == 'g' || v == 'G' {
			// %g with the shortest representation: exponent form iff the decimal exponent is < -4 or >= 6
			e := byte('e')
			if v == 'G' {
				e = 'E'
			}
			abs := tb.fun(OFAbs, f)
			v = 'f'
			if !x.branch(tb.fun(OFIsNaN, f)) && !x.branch(tb.fun(OFIsInf, f)) && !x.branch(tb.fcmp(OFEq, abs, tb.F64(0))) {
				if x.branch(tb.Or(tb.fcmp(OFLt, abs, tb.F64(1e-4)), tb.fcmp(OFLe, tb.F64(1e6), abs))) {
					v = e
				}
			}
		}
		return x.formatFloat(f, v)
	})
	// Append* = append(dst, Format*(...)...)
	appendStr := func(x *Exec, dst value, s strVal) value {
		d := dst.(sliceVal)
		bs := x.bytesOf(s)
		out := make([]value, 0, len(d.a)+len(bs))
		out = append(out, d.a...)
		for _, b := range bs {
			out = append(out, b)
		}
		// a fresh backing array (a legal outcome of append; aliasing of dst's spare capacity is not modelled)
		return sliceVal{a: out}
	}
	reg("strconv.AppendFloat", func(x *Exec, fr *frame, args []value) value {
		s := intrinsics["strconv.FormatFloat"](x, fr, args[1:]).(strVal)
		return appendStr(x, args[0], s)
	})
	reg("strconv.AppendInt", func(x *Exec, fr *frame, args []value) value {
		s := intrinsics["strconv.FormatInt"](x, fr, args[1:]).(strVal)
		return appendStr(x, args[0], s)
	})
	reg("strconv.AppendBool", func(x *Exec, fr *frame, args []value) value {
		b := args[1].(*Term)
		if x.branch(b) {
			return appendStr(x, args[0], strVal{s: "true"})
		}
		return appendStr(x, args[0], strVal{s: "false"})
	})
	reg("strconv.ParseFloat", func(x *Exec, fr *frame, args []value) value {
		s := args[0].(strVal)
		if c, ok := s.concrete(); ok {
			v, err := strconv.ParseFloat(c, 64)
			if err != nil {
				return tuple{x.tb.F64(v), x.mkErr(err.Error())}
			}
			return tuple{x.tb.F64(v), iface{}}
		}
		pkg := x.P.prog.ImportedPackage("strconv")
		n := s.Len()
		sp := x.callSSA(fr, token.NoPos, pkg.Func("special"), []value{s}, nil).(tuple)
		if x.branch(sp[2].(*Term)) {
			if x.concInt(sp[1], "special n") == int64(n) {
				return tuple{sp[0], iface{}}
			}
			return tuple{x.tb.F64(0), x.mkErr("strconv.ParseFloat: invalid syntax")}
		}
		rf := x.callSSA(fr, token.NoPos, pkg.Func("readFloat"), []value{s}, nil).(tuple)
		ok := x.branch(rf[6].(*Term))
		if !ok || x.concInt(rf[5], "readFloat n") != int64(n) {
			return tuple{x.tb.F64(0), x.mkErr("strconv.ParseFloat: invalid syntax")}
		}
		if x.branch(rf[4].(*Term)) {
			panic(unsupported{"hexadecimal float literal (outside the PF contract)"})
		}
		v := x.pf(x.bytesOf(s))
		// a decimal literal accepted without error denotes a finite number (range errors are assumed away)
		x.axiom(x.tb.Not(x.tb.Or(x.tb.fun(OFIsNaN, v), x.tb.fun(OFIsInf, v))))
		// correct rounding, integer case: a literal that the real readFloat scanned as mantissa m (all
		// digits kept, no decimal exponent) denotes the integer m, and ParseFloat returns the float64
		// nearest to it (round to nearest even) — documented contract of ParseFloat. The digits -> m
		// step is the real readFloat code; only the final rounding is stated here.
		if stripped, did := x.stripDotZero(x.bytesOf(s)); did {
			// "D.0": the same fact through the literal "D" (scanned by the real readFloat again)
			rf2 := x.callSSA(fr, token.NoPos, pkg.Func("readFloat"), []value{x.mkStr(stripped)}, nil).(tuple)
			if okT, isT := rf2[6].(*Term); isT && x.branch(okT) {
				rf = rf2
			}
		}
		if mant, ok := rf[0].(*Term); ok {
			tb := x.tb
			exact := tb.And(tb.Eq(rf[1].(*Term), tb.Int(0)), tb.Not(rf[3].(*Term)))
			conv := tb.FFromInt(mant, false, SF64)
			val := tb.Ite(rf[2].(*Term), tb.fun(OFNeg, conv), conv)
			x.axiom(tb.Implies(exact, tb.Eq(tb.FToBits(v), tb.FToBits(val))))
		}
		return tuple{v, iface{}}
	})
	// harness-side access to the same contract function
	reg(hp+"verifPF", func(x *Exec, fr *frame, args []value) value {
		s := args[0].(strVal)
		if c, ok := s.concrete(); ok {
			v, _ := strconv.ParseFloat(c, 64)
			return x.tb.F64(v)
		}
		return x.pf(x.bytesOf(s))
	})
}

var _ = math.Abs
