package main

// Channels in the executor's scheduler model: a channel is a FIFO of items with a capacity; a send on an
// unbuffered channel completes when its item has been taken. Blocking uses the scheduler's waitUntil, so a
// set of goroutines that can never proceed is reported as the runtime's "all goroutines are asleep".
// Happens-before: send -> the receive that takes the item; close -> a receive that observes it.
// select is not modelled.

import (
	"go/types"
)

type chanItem struct {
	v     value
	taken bool
}

type chanVal struct {
	buf    []*chanItem
	cap    int
	closed bool
	hb     *value // identity for the happens-before clocks
	elem   types.Type
}

func (x *Exec) makeChan(t types.Type, size int64) *chanVal {
	if size < 0 {
		x.rtPanic("makechan: size out of range")
	}
	cell := value(nil)
	return &chanVal{cap: int(size), hb: &cell, elem: t.Underlying().(*types.Chan).Elem()}
}

func (x *Exec) chanOf(v value, what string) *chanVal {
	c, _ := v.(*chanVal)
	if c == nil {
		if x.sched == nil {
			panic(unsupported{what + " on a nil channel outside the scheduler"})
		}
		// blocks forever
		x.sched.waitUntil(x, func() bool { return false }, what+" on nil channel")
	}
	return c
}

func (x *Exec) chanSend(chv value, v value) {
	c := x.chanOf(chv, "chan send")
	if x.sched != nil {
		x.sched.yield("chan send")
	}
	if c.closed {
		x.rtPanic("send on closed channel")
	}
	room := func() bool { return c.closed || len(c.buf) < c.cap || (c.cap == 0 && len(c.buf) == 0) }
	if !room() {
		if x.sched == nil {
			panic(unsupported{"chan send would block outside the scheduler (deadlock)"})
		}
		x.sched.waitUntil(x, room, "chan send")
	}
	if c.closed {
		x.rtPanic("send on closed channel")
	}
	it := &chanItem{v: copyVal(v)}
	c.buf = append(c.buf, it)
	if x.sched != nil {
		x.sched.release(x, c.hb)
	}
	if c.cap == 0 {
		// rendezvous: the send completes when a receiver has taken the item
		if x.sched == nil {
			panic(unsupported{"unbuffered chan send outside the scheduler"})
		}
		x.sched.waitUntil(x, func() bool { return it.taken }, "chan send (unbuffered)")
	}
}

func (x *Exec) chanRecv(chv value, elemZero func() value) (value, bool) {
	c := x.chanOf(chv, "chan receive")
	if x.sched != nil {
		x.sched.yield("chan receive")
	}
	avail := func() bool { return len(c.buf) > 0 || c.closed }
	if !avail() {
		if x.sched == nil {
			panic(unsupported{"chan receive would block outside the scheduler (deadlock)"})
		}
		x.sched.waitUntil(x, avail, "chan receive")
	}
	if x.sched != nil {
		x.sched.acquire(x, c.hb)
	}
	if len(c.buf) > 0 {
		it := c.buf[0]
		c.buf = c.buf[1:]
		it.taken = true
		return it.v, true
	}
	return elemZero(), false
}

func (x *Exec) chanClose(chv value) {
	c, _ := chv.(*chanVal)
	if c == nil {
		x.rtPanic("close of nil channel")
	}
	if c.closed {
		x.rtPanic("close of closed channel")
	}
	if x.sched != nil {
		x.sched.yield("chan close")
		x.sched.release(x, c.hb)
	}
	c.closed = true
}
