package main

// Symbolic interpreter for go/ssa. Structure follows x/tools/go/ssa/interp;
// scalars are SMT terms, control flow on symbolic conditions forks through the
// decision trail (explore.go).

import (
	"fmt"
	"go/token"
	"go/types"
	"os"
	"slices"
	"strings"

	"golang.org/x/tools/go/ssa"
)

type deferred struct {
	fn    value
	args  []value
	instr *ssa.Defer
	tail  *deferred
}

type frame struct {
	x                *Exec
	caller           *frame
	fn               *ssa.Function
	block, prevBlock *ssa.BasicBlock
	env              map[ssa.Value]value
	locals           []value
	defers           *deferred
	result           value
	panicking        bool
	panic            interface{}
	phitemps         []value
	visits           map[int]int
}

type continuation int

const (
	kNext continuation = iota
	kReturn
	kJump
)

type Program struct {
	prog     *ssa.Program
	pkg      *ssa.Package
	sizes    types.Sizes
	fset     *token.FileSet
	initPkgs []*ssa.Package
}

type inputRec struct {
	kind string // "int64","bool","float64",... or "choice"
	t    *Term  // symbolic term (var) or const
}

type Exec struct {
	ffApps []ffApp // float-text contract applications on the current path (FormatFloat)
	pfApps []pfApp // ... (ParseFloat / PF)
	procs int64 // runtime.GOMAXPROCS as set by the program (0 = default)
	P       *Program
	tb      *TB
	sol     *Solver
	globals map[*ssa.Global]*value

	// per-path state
	trail    []entry
	pos      int
	asserted int
	inputs   []inputRec
	nvars    int
	depth    int
	steps    int64
	observes []observation
	reached  map[string]bool
	bounds   map[string]int64
	mapOrder int
	mapRot   int
	mapWalks int
	mdl      *model
	stubCache map[stubKey]strVal
	auxVars  []*Term
	nextMap  int
	fileData map[string]fileStub
	hb       *hbState
	syncs    map[*value]*syncObj
	unsafeT  map[*value]types.Type // pointer type a cell was converted to unsafe.Pointer from
	raceMsgs []string
	wtrack   map[*value]bool
	wtrackM  map[*mapVal]bool
	sched    *scheduler

	// configuration
	tier      int
	unwind    int
	unwind0   int // the tier's unwinding bound; a harness may raise it for one path (verifBound("UNWIND", n))
	stepLimit int64
	casemax   int
	feasTimeout   int
	assertTimeout int
	inInit    bool
	trace     bool
	harness   string

	// run-wide accounting
	R *Results

	rtErrType   types.Type
	errStrType  types.Type // *errors.errorString
	funcsSeen   map[*ssa.Function]int64
	stubsSeen   map[string]int64
	initWarn    []string
	inNewRegion bool
}

func (x *Exec) get(fr *frame, key ssa.Value) value {
	switch key := key.(type) {
	case nil:
		return nil
	case *ssa.Function, *ssa.Builtin:
		return key
	case *ssa.Const:
		return x.constValue(key)
	case *ssa.Global:
		if r, ok := x.globals[key]; ok {
			return r
		}
		panic(unsupported{"global without storage: " + key.String()})
	}
	if r, ok := fr.env[key]; ok {
		return r
	}
	panic(fmt.Sprintf("get: no value for %T: %v in %s", key, key.Name(), fr.fn))
}

func (x *Exec) constValue(c *ssa.Const) value {
	if c.Value == nil {
		return x.zero(c.Type())
	}
	t := c.Type()
	if tp, ok := t.(*types.TypeParam); ok {
		_ = tp
		panic(unsupported{"const of type parameter"})
	}
	if b, ok := t.Underlying().(*types.Basic); ok {
		if b.Info()&types.IsString != 0 {
			return strVal{s: constantString(c)}
		}
		s, ok := basicSort(b)
		if !ok {
			return poison{"const " + t.String()}
		}
		switch s.K {
		case KBool:
			return x.tb.Bool(constantBool(c))
		case KBV:
			if isSigned(b) {
				return x.tb.Const(s.W, uint64(c.Int64()))
			}
			return x.tb.Const(s.W, c.Uint64())
		default:
			return x.tb.fconst(s, c.Float64())
		}
	}
	return poison{"const " + t.String()}
}

func (fr *frame) runDefer(d *deferred) {
	var ok bool
	defer func() {
		if !ok {
			r := recover()
			if _, isTP := r.(targetPanic); !isTP {
				panic(r) // engine-level abort: propagate
			}
			fr.panicking = true
			fr.panic = r
		}
	}()
	fr.x.call(fr, d.instr.Pos(), d.fn, d.args)
	ok = true
}

func (fr *frame) runDefers() {
	for d := fr.defers; d != nil; d = d.tail {
		fr.runDefer(d)
	}
	fr.defers = nil
	if fr.panicking {
		panic(fr.panic)
	}
}

func (x *Exec) lookupMethod(typ types.Type, meth *types.Func) *ssa.Function {
	return x.P.prog.LookupMethod(typ, meth.Pkg(), meth.Name())
}

func (x *Exec) visitInstr(fr *frame, instr ssa.Instruction) continuation {
	x.steps++
	if x.steps > x.stepLimit {
		panic(unsupported{fmt.Sprintf("step limit %d exceeded in %s", x.stepLimit, fr.fn)})
	}
	switch instr := instr.(type) {
	case *ssa.DebugRef:

	case *ssa.UnOp:
		fr.env[instr] = x.unop(instr, x.get(fr, instr.X))

	case *ssa.BinOp:
		fr.env[instr] = x.binop(instr.Op, instr.X.Type(), x.get(fr, instr.X), x.get(fr, instr.Y))

	case *ssa.Call:
		fn, args := x.prepareCall(fr, &instr.Call)
		fr.env[instr] = x.call(fr, instr.Pos(), fn, args)

	case *ssa.ChangeInterface:
		fr.env[instr] = x.get(fr, instr.X)

	case *ssa.ChangeType:
		fr.env[instr] = x.get(fr, instr.X)

	case *ssa.Convert:
		fr.env[instr] = x.conv(instr.Type(), instr.X.Type(), x.get(fr, instr.X))

	case *ssa.SliceToArrayPointer:
		panic(unsupported{"SliceToArrayPointer"})

	case *ssa.MakeInterface:
		fr.env[instr] = iface{t: instr.X.Type(), v: x.get(fr, instr.X)}

	case *ssa.Extract:
		fr.env[instr] = x.get(fr, instr.Tuple).(tuple)[instr.Index]

	case *ssa.Slice:
		fr.env[instr] = x.slice(instr, x.get(fr, instr.X), x.get(fr, instr.Low), x.get(fr, instr.High), x.get(fr, instr.Max))

	case *ssa.Return:
		switch len(instr.Results) {
		case 0:
		case 1:
			fr.result = x.get(fr, instr.Results[0])
		default:
			var res []value
			for _, r := range instr.Results {
				res = append(res, x.get(fr, r))
			}
			fr.result = tuple(res)
		}
		fr.block = nil
		return kReturn

	case *ssa.RunDefers:
		fr.runDefers()

	case *ssa.Panic:
		v := x.get(fr, instr.X)
		panic(targetPanic{v: v, msg: x.panicText(v)})

	case *ssa.Send:
		x.chanSend(x.get(fr, instr.Chan), x.get(fr, instr.X))

	case *ssa.Store:
		x.store(x.get(fr, instr.Addr).(*value), x.get(fr, instr.Val))

	case *ssa.If:
		succ := 1
		if x.branch(x.get(fr, instr.Cond).(*Term)) {
			succ = 0
		}
		x.jump(fr, fr.block.Succs[succ])
		return kJump

	case *ssa.Jump:
		x.jump(fr, fr.block.Succs[0])
		return kJump

	case *ssa.Defer:
		fn, args := x.prepareCall(fr, &instr.Call)
		defers := &fr.defers
		if instr.DeferStack != nil {
			if into := x.get(fr, instr.DeferStack); into != nil {
				defers = into.(**deferred)
			}
		}
		*defers = &deferred{fn: fn, args: args, instr: instr, tail: *defers}

	case *ssa.Go:
		fn, args := x.prepareCall(fr, &instr.Call)
		x.spawn(fr, instr, fn, args)

	case *ssa.MakeChan:
		fr.env[instr] = x.makeChan(instr.Type(), x.concretize(x.get(fr, instr.Size).(*Term), "make chan size"))

	case *ssa.Alloc:
		var addr *value
		if instr.Heap {
			addr = new(value)
			fr.env[instr] = addr
		} else {
			addr = fr.env[instr].(*value)
		}
		*addr = x.zero(deref(instr.Type()))

	case *ssa.MakeSlice:
		n := x.concInt(x.get(fr, instr.Len), "make len")
		c := x.concInt(x.get(fr, instr.Cap), "make cap")
		if n < 0 || c < n || c > 1<<20 {
			x.rtPanic("makeslice: len out of range")
		}
		sl := make([]value, c)
		tElt := instr.Type().Underlying().(*types.Slice).Elem()
		for i := range sl {
			sl[i] = x.zero(tElt)
		}
		fr.env[instr] = sliceVal{a: sl[:n]}

	case *ssa.MakeMap:
		x.nextMap++
		fr.env[instr] = &mapVal{id: x.nextMap}

	case *ssa.Range:
		fr.env[instr] = x.rangeIter(x.get(fr, instr.X), instr.X.Type())

	case *ssa.Next:
		fr.env[instr] = x.get(fr, instr.Iter).(iter).next(x)

	case *ssa.FieldAddr:
		p := x.get(fr, instr.X).(*value)
		if p == nil {
			x.rtPanic("invalid memory address or nil pointer dereference")
		}
		fr.env[instr] = &(*p).(structure)[instr.Field]

	case *ssa.Field:
		fr.env[instr] = x.get(fr, instr.X).(structure)[instr.Field]

	case *ssa.IndexAddr:
		xv := x.get(fr, instr.X)
		idx := x.get(fr, instr.Index).(*Term)
		switch xv := xv.(type) {
		case sliceVal:
			if idx.op != OConst && onlyLoaded(instr) && len(xv.a) > 1 {
				fr.env[instr] = x.symIndex(xv.a, idx, instr.Index.Type())
				break
			}
			i := x.boundedIndex(idx, len(xv.a), instr.Index.Type())
			fr.env[instr] = &xv.a[i]
		case *value:
			if xv == nil {
				x.rtPanic("invalid memory address or nil pointer dereference")
			}
			arr := (*xv).(array)
			if idx.op != OConst && onlyLoaded(instr) && len(arr) > 1 {
				fr.env[instr] = x.symIndex([]value(arr), idx, instr.Index.Type())
				break
			}
			i := x.boundedIndex(idx, len(arr), instr.Index.Type())
			fr.env[instr] = &arr[i]
		default:
			panic(fmt.Sprintf("unexpected x type in IndexAddr: %T", xv))
		}

	case *ssa.Index:
		xv := x.get(fr, instr.X)
		idx := x.get(fr, instr.Index).(*Term)
		switch xv := xv.(type) {
		case array:
			fr.env[instr] = x.indexValues([]value(xv), idx, instr.Index.Type())
		case strVal:
			fr.env[instr] = x.indexString(xv, idx, instr.Index.Type())
		default:
			panic(fmt.Sprintf("unexpected x type in Index: %T", xv))
		}

	case *ssa.Lookup:
		fr.env[instr] = x.lookup(instr, x.get(fr, instr.X), x.get(fr, instr.Index))

	case *ssa.MapUpdate:
		m := x.get(fr, instr.Map).(*mapVal)
		x.mapUpdate(m, instr.Map.Type().Underlying().(*types.Map).Key(), x.get(fr, instr.Key), x.get(fr, instr.Value))

	case *ssa.TypeAssert:
		fr.env[instr] = x.typeAssert(instr, x.get(fr, instr.X).(iface))

	case *ssa.MakeClosure:
		var bindings []value
		for _, binding := range instr.Bindings {
			bindings = append(bindings, x.get(fr, binding))
		}
		fr.env[instr] = &closure{instr.Fn.(*ssa.Function), bindings}

	case *ssa.Phi:
		panic("unreachable phi")

	case *ssa.Select:
		panic(unsupported{"select"})

	default:
		panic(unsupported{fmt.Sprintf("instruction %T", instr)})
	}
	return kNext
}

func deref(t types.Type) types.Type {
	if p, ok := t.Underlying().(*types.Pointer); ok {
		return p.Elem()
	}
	panic("deref of non-pointer " + t.String())
}

func (x *Exec) jump(fr *frame, to *ssa.BasicBlock) {
	if to.Index <= fr.block.Index {
		if fr.visits == nil {
			fr.visits = map[int]int{}
		}
		fr.visits[to.Index]++
		if fr.visits[to.Index] > x.unwind && !x.inInit {
			panic(unsupported{fmt.Sprintf("unwinding bound %d exceeded at %s block %d (%s)", x.unwind, fr.fn, to.Index, x.P.fset.Position(fr.fn.Pos()))})
		}
	}
	fr.prevBlock, fr.block = fr.block, to
}

func (x *Exec) prepareCall(fr *frame, call *ssa.CallCommon) (fn value, args []value) {
	v := x.get(fr, call.Value)
	if call.Method == nil {
		fn = v
	} else {
		recv, ok := v.(iface)
		if !ok {
			panic(unsupported{fmt.Sprintf("invoke on %T", v)})
		}
		if recv.t == nil {
			x.rtPanic("invalid memory address or nil pointer dereference (method on nil interface)")
		}
		f := x.lookupMethod(recv.t, call.Method)
		if f == nil {
			panic(fmt.Sprintf("method set for dynamic type %v does not contain %s", recv.t, call.Method))
		}
		fn = f
		args = append(args, recv.v)
	}
	for _, arg := range call.Args {
		args = append(args, x.get(fr, arg))
	}
	return
}

func (x *Exec) call(caller *frame, callpos token.Pos, fn value, args []value) value {
	switch fn := fn.(type) {
	case *ssa.Function:
		if fn == nil {
			x.rtPanic("call of nil function")
		}
		return x.callSSA(caller, callpos, fn, args, nil)
	case *closure:
		if fn == nil {
			x.rtPanic("call of nil function")
		}
		return x.callSSA(caller, callpos, fn.Fn, args, fn.Env)
	case *ssa.Builtin:
		return x.callBuiltin(caller, callpos, fn, args)
	case nativeFn:
		return fn(x, caller, args)
	case poison:
		if x.inInit {
			return poison{"call of poison"}
		}
	}
	panic(unsupported{fmt.Sprintf("cannot call %T", fn)})
}

// useBody is returned by an intrinsic that does not apply to its arguments: the real body runs instead.
type useBody struct{}

func (x *Exec) callSSA(caller *frame, callpos token.Pos, fn *ssa.Function, args []value, env []value) value {
	fr := &frame{x: x, caller: caller, fn: fn}
	if fn.Parent() == nil {
		name := fn.String()
		if in := intrinsics[name]; in != nil {
			r := in(x, fr, args)
			if _, body := r.(useBody); !body {
				x.stubsSeen[name]++
				return r
			}
		}
		if fn.Blocks == nil {
			if x.inInit {
				return poison{"no body: " + name}
			}
			panic(unsupported{"no code for function: " + name})
		}
	}
	if x.trace {
		fmt.Fprintf(os.Stderr, "%s-> %s\n", strings.Repeat(" ", x.depth), fn)
	}
	if fn.TypeParams().Len() > 0 && len(fn.TypeArgs()) == 0 {
		panic(unsupported{"uninstantiated generic " + fn.String()})
	}
	x.depth++
	if x.depth > 4000 {
		panic(unsupported{"call depth exceeded in " + fn.String()})
	}
	defer func() { x.depth-- }()
	if x.inNewRegion || x.pos >= len(x.trail) {
		x.funcsSeen[fn]++
	}
	fr.env = make(map[ssa.Value]value, 16)
	fr.block = fn.Blocks[0]
	fr.locals = make([]value, len(fn.Locals))
	for i, l := range fn.Locals {
		fr.locals[i] = x.zero(deref(l.Type()))
		fr.env[l] = &fr.locals[i]
	}
	for i, p := range fn.Params {
		fr.env[p] = args[i]
	}
	for i, fv := range fn.FreeVars {
		fr.env[fv] = env[i]
	}
	for fr.block != nil {
		x.runFrame(fr)
	}
	return fr.result
}

func (x *Exec) runFrame(fr *frame) {
	defer func() {
		if fr.block == nil {
			return
		}
		r := recover()
		if _, ok := r.(targetPanic); !ok {
			// engine-level abort (path end / unsupported / bug): run nothing, propagate
			panic(r)
		}
		fr.panicking = true
		fr.panic = r
		fr.runDefers()
		fr.block = fr.fn.Recover
	}()
	for {
		nonPhis := x.executePhis(fr)
		for _, instr := range nonPhis {
			if x.trace {
				if v, ok := instr.(ssa.Value); ok {
					fmt.Fprintf(os.Stderr, "%s  %s = %s\n", strings.Repeat(" ", x.depth), v.Name(), instr)
				} else {
					fmt.Fprintf(os.Stderr, "%s  %s\n", strings.Repeat(" ", x.depth), instr)
				}
			}
			var k continuation
			if x.inInit {
				k = x.visitInit(fr, instr)
			} else {
				k = x.visitInstr(fr, instr)
			}
			if k == kReturn {
				return
			}
			if k == kJump {
				break
			}
		}
	}
}

// visitInit: instruction execution during package initialisation tolerates
// unsupported operations by producing poison values.
func (x *Exec) visitInit(fr *frame, instr ssa.Instruction) (k continuation) {
	defer func() {
		if r := recover(); r != nil {
			if _, ok := r.(targetPanic); ok {
				panic(r)
			}
			v, isVal := instr.(ssa.Value)
			if !isVal {
				if _, isStore := instr.(*ssa.Store); isStore {
					k = kNext
					return
				}
				if _, isMU := instr.(*ssa.MapUpdate); isMU {
					k = kNext
					return
				}
				panic(r)
			}
			fr.env[v] = poison{fmt.Sprint(r)}
			k = kNext
		}
	}()
	return x.visitInstr(fr, instr)
}

func (x *Exec) executePhis(fr *frame) []ssa.Instruction {
	firstNonPhi := -1
	for i, instr := range fr.block.Instrs {
		if _, ok := instr.(*ssa.Phi); !ok {
			firstNonPhi = i
			break
		}
	}
	nonPhis := fr.block.Instrs[firstNonPhi:]
	if firstNonPhi > 0 {
		phis := fr.block.Instrs[:firstNonPhi]
		predIndex := slices.Index(fr.block.Preds, fr.prevBlock)
		fr.phitemps = fr.phitemps[:0]
		for _, phi := range phis {
			phi := phi.(*ssa.Phi)
			fr.phitemps = append(fr.phitemps, x.get(fr, phi.Edges[predIndex]))
		}
		for i, phi := range phis {
			fr.env[phi.(*ssa.Phi)] = fr.phitemps[i]
		}
	}
	return nonPhis
}

func (x *Exec) doRecover(caller *frame) value {
	if caller != nil && !caller.panicking && caller.caller != nil && caller.caller.panicking {
		caller.caller.panicking = false
		p := caller.caller.panic
		caller.caller.panic = nil
		switch p := p.(type) {
		case targetPanic:
			return p.v
		default:
			panic(p)
		}
	}
	return iface{}
}

func (x *Exec) panicText(v value) string {
	if i, ok := v.(iface); ok {
		if s, ok := i.v.(strVal); ok {
			if c, ok := s.concrete(); ok {
				return c
			}
			return "<symbolic panic message>"
		}
		if i.t != nil {
			return "panic(" + i.t.String() + ")"
		}
	}
	return "panic"
}

// initGlobals allocates storage for every package-level variable and runs the
// initialisers of the selected packages concretely.
func (x *Exec) initGlobals() {
	x.globals = make(map[*ssa.Global]*value)
	for _, pkg := range x.P.prog.AllPackages() {
		for _, m := range pkg.Members {
			if g, ok := m.(*ssa.Global); ok {
				cell := x.zero(deref(g.Type()))
				x.globals[g] = &cell
			}
		}
	}
	x.inInit = true
	for _, pkg := range x.P.initPkgs {
		fn := pkg.Func("init")
		if fn == nil {
			continue
		}
		func() {
			defer func() {
				if r := recover(); r != nil {
					x.initWarn = append(x.initWarn, fmt.Sprintf("init of %s aborted: %v", pkg.Pkg.Path(), r))
				}
			}()
			x.callSSA(nil, token.NoPos, fn, nil, nil)
		}()
	}
	x.inInit = false
	x.steps = 0
}

// reinitOwnGlobals gives the package under test fresh package-level variables at the start of every path
// (mutable package state — caches, pools, counters — must not leak from one explored path into the next).
// Library packages keep their one-time initialisation: their package-level state is treated as immutable tables.
func (x *Exec) reinitOwnGlobals() {
	pkg := x.P.pkg
	any := false
	for _, m := range pkg.Members {
		if g, ok := m.(*ssa.Global); ok {
			if cell, ok := x.globals[g]; ok {
				*cell = x.zero(deref(g.Type()))
				any = true
			}
		}
	}
	if !any {
		return
	}
	fn := pkg.Func("init")
	if fn == nil {
		return
	}
	x.inInit = true
	saved := x.stepLimit
	x.stepLimit = 1 << 40
	func() {
		defer func() {
			if r := recover(); r != nil {
				x.inInit = false
				x.stepLimit = saved
				panic(r)
			}
		}()
		x.callSSA(nil, token.NoPos, fn, nil, nil)
	}()
	x.inInit = false
	x.stepLimit = saved
	x.steps = 0
}

// symPtr is the address of elems[idx] for a symbolic idx, used only when every use of the
// address is a load: the load becomes an if-then-else tree over the elements.
type symPtr struct {
	elems []value
	idx   *Term
}

func onlyLoaded(instr *ssa.IndexAddr) bool {
	refs := instr.Referrers()
	if refs == nil || len(*refs) == 0 {
		return false
	}
	for _, r := range *refs {
		u, ok := r.(*ssa.UnOp)
		if !ok || u.Op != token.MUL {
			return false
		}
	}
	return true
}

func (x *Exec) symIndex(elems []value, idx *Term, it types.Type) value {
	idx = x.widenIdx(idx, it)
	inb := x.tb.Ult(idx, x.tb.Const(64, uint64(len(elems))))
	if !x.branch(inb) {
		x.rtPanic(fmt.Sprintf("index out of range [symbolic] with length %d", len(elems)))
	}
	if !selectable(elems) {
		i := x.concretize(idx, "index")
		return &elems[i]
	}
	return symPtr{elems: elems, idx: idx}
}

func selectable(elems []value) bool {
	switch e0 := elems[0].(type) {
	case *Term:
		for _, e := range elems {
			t, ok := e.(*Term)
			if !ok || t.sort != e0.sort {
				return false
			}
		}
		return true
	case structure:
		for f := range e0 {
			col := make([]value, len(elems))
			for i, e := range elems {
				s, ok := e.(structure)
				if !ok || len(s) != len(e0) {
					return false
				}
				col[i] = s[f]
			}
			if !selectable(col) {
				return false
			}
		}
		return true
	}
	return false
}

func (x *Exec) selectValue(elems []value, idx *Term) value {
	switch e0 := elems[0].(type) {
	case *Term:
		ts := make([]*Term, len(elems))
		for i, e := range elems {
			ts[i] = e.(*Term)
		}
		return x.selectTerm(ts, idx)
	case structure:
		out := make(structure, len(e0))
		for f := range e0 {
			col := make([]value, len(elems))
			for i, e := range elems {
				col[i] = e.(structure)[f]
			}
			out[f] = x.selectValue(col, idx)
		}
		return out
	}
	panic(unsupported{"selectValue"})
}
