package main

// Value model of the symbolic executor (modelled on x/tools/go/ssa/interp, with
// every scalar replaced by an SMT term).
//
//   *Term            bool, all integer kinds, float32/float64
//   strVal           string: concrete length, concrete or symbolic bytes
//   sliceVal         slice over a shared []value backing store (cap = true Go cap)
//   *mapVal          map with ordered entries and term-valued key equality
//   *value           pointer (to a variable, struct field or array element)
//   structure/array  aggregates (copied on load/store)
//   iface            interface value {dynamic type, value}; zero iface{} is nil
//   *ssa.Function, *ssa.Builtin, *closure   functions
//   tuple            multiple results

import (
	"fmt"
	"go/types"
	"strings"

	"golang.org/x/tools/go/ssa"
)

type value interface{}

type tuple []value
type array []value
type structure []value

type iface struct {
	t types.Type
	v value
}

// nativeFn is a function value implemented by the executor itself (e.g. the swapper that
// reflectlite.Swapper would return); callable wherever a Go func value is.
type nativeFn func(x *Exec, fr *frame, args []value) value

type closure struct {
	Fn  *ssa.Function
	Env []value
}

type strVal struct {
	s string
	b []*Term // non-nil => symbolic bytes (len(b) is the string length)
}

func (s strVal) Len() int {
	if s.b != nil {
		return len(s.b)
	}
	return len(s.s)
}

func (s strVal) concrete() (string, bool) {
	if s.b == nil {
		return s.s, true
	}
	buf := make([]byte, len(s.b))
	for i, t := range s.b {
		if t.op != OConst {
			return "", false
		}
		buf[i] = byte(t.u)
	}
	return string(buf), true
}

type sliceVal struct {
	a []value // nil => nil slice
}

type mapEntry struct {
	k, v value
}

type mapVal struct {
	entries []*mapEntry
	id      int
}

type bad struct{}

// opaque error / unsupported marker values
type poison struct{ why string }

// targetPanic is a Go panic of the program under analysis (explicit or modelled runtime panic).
type targetPanic struct {
	v   value
	msg string
}

// pathEnd aborts the current path (infeasible assumption, budget, ...).
type pathEnd struct{ why string }

// unsupported aborts the current path and marks the run INCONCLUSIVE.
type unsupported struct{ why string }

func (x *Exec) bytesOf(s strVal) []*Term {
	if s.b != nil {
		return s.b
	}
	out := make([]*Term, len(s.s))
	for i := 0; i < len(s.s); i++ {
		out[i] = x.tb.bytes[s.s[i]]
	}
	return out
}

func (x *Exec) mkStr(b []*Term) strVal {
	conc := true
	for _, t := range b {
		if t.op != OConst {
			conc = false
			break
		}
	}
	if conc {
		buf := make([]byte, len(b))
		for i, t := range b {
			buf[i] = byte(t.u)
		}
		return strVal{s: string(buf)}
	}
	if b == nil {
		b = []*Term{}
	}
	return strVal{b: b}
}

func isSigned(t types.Type) bool {
	b, ok := t.Underlying().(*types.Basic)
	if !ok {
		return false
	}
	switch b.Kind() {
	case types.Int, types.Int8, types.Int16, types.Int32, types.Int64, types.UntypedInt, types.UntypedRune:
		return true
	}
	return false
}

func basicSort(t types.Type) (Sort, bool) {
	b, ok := t.Underlying().(*types.Basic)
	if !ok {
		return Sort{}, false
	}
	switch b.Kind() {
	case types.Bool, types.UntypedBool:
		return SBool, true
	case types.Int, types.Uint, types.Int64, types.Uint64, types.Uintptr, types.UntypedInt:
		return BV(64), true
	case types.Int32, types.Uint32, types.UntypedRune:
		return BV(32), true
	case types.Int16, types.Uint16:
		return BV(16), true
	case types.Int8, types.Uint8:
		return BV(8), true
	case types.Float64, types.UntypedFloat:
		return SF64, true
	case types.Float32:
		return SF32, true
	}
	return Sort{}, false
}

func (x *Exec) zero(t types.Type) value {
	switch t := t.(type) {
	case *types.Basic:
		if t.Kind() == types.UntypedNil {
			panic("untyped nil has no zero value")
		}
		if t.Info()&types.IsString != 0 {
			return strVal{}
		}
		if t.Kind() == types.UnsafePointer {
			return (*value)(nil)
		}
		s, ok := basicSort(t)
		if !ok {
			return poison{"zero of " + t.String()}
		}
		switch s.K {
		case KBool:
			return x.tb.False()
		case KBV:
			return x.tb.Const(s.W, 0)
		default:
			return x.tb.fconst(s, 0)
		}
	case *types.Pointer:
		return (*value)(nil)
	case *types.Array:
		a := make(array, t.Len())
		for i := range a {
			a[i] = x.zero(t.Elem())
		}
		return a
	case *types.Named:
		return x.zero(t.Underlying())
	case *types.Alias:
		return x.zero(types.Unalias(t))
	case *types.Interface:
		return iface{}
	case *types.Slice:
		return sliceVal{}
	case *types.Struct:
		s := make(structure, t.NumFields())
		for i := range s {
			s[i] = x.zero(t.Field(i).Type())
		}
		return s
	case *types.Tuple:
		if t.Len() == 1 {
			return x.zero(t.At(0).Type())
		}
		s := make(tuple, t.Len())
		for i := range s {
			s[i] = x.zero(t.At(i).Type())
		}
		return s
	case *types.Chan:
		return (*chanVal)(nil)
	case *types.Map:
		return (*mapVal)(nil)
	case *types.Signature:
		return (*ssa.Function)(nil)
	case *types.TypeParam:
		panic("zero of type parameter")
	}
	panic(fmt.Sprint("zero: unexpected ", t))
}

func copyVal(v value) value {
	switch v := v.(type) {
	case structure:
		c := make(structure, len(v))
		for i, e := range v {
			c[i] = copyVal(e)
		}
		return c
	case array:
		c := make(array, len(v))
		for i, e := range v {
			c[i] = copyVal(e)
		}
		return c
	}
	return v
}

func (x *Exec) load(addr *value) value {
	if addr == nil {
		x.rtPanic("invalid memory address or nil pointer dereference")
	}
	x.noteRead(addr)
	return copyVal(*addr)
}

func (x *Exec) store(addr *value, v value) {
	if addr == nil {
		x.rtPanic("invalid memory address or nil pointer dereference")
	}
	x.noteWrite(addr)
	storeInPlace(addr, v)
}

// storeInPlace keeps interior pointers (&struct.field, &array[i]) valid: aggregates are
// overwritten element by element instead of being replaced.
func storeInPlace(addr *value, v value) {
	switch rhs := v.(type) {
	case structure:
		if lhs, ok := (*addr).(structure); ok && len(lhs) == len(rhs) {
			for i := range lhs {
				storeInPlace(&lhs[i], rhs[i])
			}
			return
		}
	case array:
		if lhs, ok := (*addr).(array); ok && len(lhs) == len(rhs) {
			tmp := copyVal(rhs).(array)
			for i := range lhs {
				storeInPlace(&lhs[i], tmp[i])
			}
			return
		}
	}
	*addr = copyVal(v)
}

func (x *Exec) rtPanic(msg string) {
	panic(targetPanic{v: iface{t: x.rtErrType, v: strVal{s: msg}}, msg: "runtime error: " + msg})
}

// debug rendering
func (x *Exec) show(v value) string {
	switch v := v.(type) {
	case nil:
		return "<nil>"
	case *Term:
		if v.op == OConst {
			switch v.sort.K {
			case KBool:
				return fmt.Sprint(v.u == 1)
			case KBV:
				return fmt.Sprint(v.sval())
			default:
				return fmt.Sprint(v.f64())
			}
		}
		s, _, _ := PrintTerm(v)
		if len(s) > 80 {
			s = s[:80] + "…"
		}
		return s
	case strVal:
		if c, ok := v.concrete(); ok {
			return fmt.Sprintf("%q", c)
		}
		return fmt.Sprintf("<sym string len %d>", v.Len())
	case sliceVal:
		var sb strings.Builder
		sb.WriteString("[")
		for i, e := range v.a {
			if i > 0 {
				sb.WriteString(" ")
			}
			sb.WriteString(x.show(e))
		}
		sb.WriteString("]")
		return sb.String()
	case iface:
		if v.t == nil {
			return "nil"
		}
		return fmt.Sprintf("%s(%s)", v.t, x.show(v.v))
	case structure:
		var sb strings.Builder
		sb.WriteString("{")
		for i, e := range v {
			if i > 0 {
				sb.WriteString(" ")
			}
			sb.WriteString(x.show(e))
		}
		sb.WriteString("}")
		return sb.String()
	case *value:
		if v == nil {
			return "nilptr"
		}
		return fmt.Sprintf("&%p", v)
	case tuple:
		var sb strings.Builder
		sb.WriteString("(")
		for i, e := range v {
			if i > 0 {
				sb.WriteString(", ")
			}
			sb.WriteString(x.show(e))
		}
		sb.WriteString(")")
		return sb.String()
	}
	return fmt.Sprintf("%T", v)
}
