package main

import (
	"encoding/json"
	"go/types"
	"flag"
	"fmt"
	"os"
	"os/exec"
	"path/filepath"
	"regexp"
	"runtime"
	"sort"
	"strconv"
	"strings"
	"sync"
	"time"

	"golang.org/x/tools/go/packages"
	"golang.org/x/tools/go/ssa"
	"golang.org/x/tools/go/ssa/ssautil"
)

const verifDir = "/verif"

var harnessDecl = regexp.MustCompile(`(?m)^func (H_\w+)\(\)`)

var initPkgOrder = []string{
	"math/bits", "math", "unicode/utf8", "unicode", "errors", "io", "bufio", "strconv", "strings", "bytes", "sort", "slices", "encoding/json",
}

func goEnv() []string {
	env := os.Environ()
	env = append(env, "GOFLAGS=-mod=mod", "GOPROXY=off", "GOSUMDB=off", "GOTOOLCHAIN=local", "CGO_ENABLED=0")
	return env
}

func harnessFiles(dir string) ([]string, error) {
	ents, err := os.ReadDir(dir)
	if err != nil {
		return nil, err
	}
	var out []string
	for _, e := range ents {
		if strings.HasSuffix(e.Name(), ".go") && !strings.HasSuffix(e.Name(), "_test.go") {
			out = append(out, filepath.Join(dir, e.Name()))
		}
	}
	sort.Strings(out)
	return out, nil
}

func loadProgram(repo, hdir string) (*Program, error) {
	files, err := harnessFiles(hdir)
	if err != nil {
		return nil, err
	}
	overlay := map[string][]byte{}
	for _, f := range files {
		b, err := os.ReadFile(f)
		if err != nil {
			return nil, err
		}
		overlay[filepath.Join(repo, "zz_verif_"+filepath.Base(f))] = b
	}
	cfg := &packages.Config{
		Mode:    packages.LoadAllSyntax,
		Dir:     repo,
		Env:     goEnv(),
		Overlay: overlay,
		Tests:   false,
	}
	pkgs, err := packages.Load(cfg, ".")
	if err != nil {
		return nil, err
	}
	if len(pkgs) != 1 {
		return nil, fmt.Errorf("expected one package, got %d", len(pkgs))
	}
	var errs []string
	packages.Visit(pkgs, nil, func(p *packages.Package) {
		for _, e := range p.Errors {
			errs = append(errs, e.Error())
		}
	})
	if len(errs) > 0 {
		return nil, fmt.Errorf("load errors:\n%s", strings.Join(errs, "\n"))
	}
	prog, spkgs := ssautil.AllPackages(pkgs, ssa.InstantiateGenerics)
	prog.Build()
	P := &Program{prog: prog, pkg: spkgs[0], sizes: pkgs[0].TypesSizes, fset: pkgs[0].Fset}
	for _, path := range initPkgOrder {
		if p := prog.ImportedPackage(path); p != nil {
			P.initPkgs = append(P.initPkgs, p)
		}
	}
	P.initPkgs = append(P.initPkgs, P.pkg)
	return P, nil
}

func (P *Program) harnesses(id string) []string {
	var out []string
	for name, m := range P.pkg.Members {
		if _, ok := m.(*ssa.Function); ok && strings.HasPrefix(name, "H_"+id+"_") {
			out = append(out, name)
		}
	}
	sort.Strings(out)
	return out
}

type Evidence struct {
	PropertyID  string                 `json:"property_id"`
	Tier        string                 `json:"tier"`
	Seed        int                    `json:"seed"`
	Level       string                 `json:"level"`
	Coverage    map[string]interface{} `json:"coverage"`
	Assumptions []string               `json:"assumptions"`
	WallS       float64                `json:"wall_s"`
	Violations  int                    `json:"violations"`
}

func main() {
	if len(os.Args) < 2 {
		fmt.Fprintln(os.Stderr, "usage: gosmt check <ID> [flags] | gosmt replay <file> | gosmt list")
		os.Exit(2)
	}
	switch os.Args[1] {
	case "check":
		os.Exit(cmdCheck(os.Args[2:]))
	case "replay":
		os.Exit(cmdReplay(os.Args[2:]))
	default:
		fmt.Fprintln(os.Stderr, "unknown command", os.Args[1])
		os.Exit(2)
	}
}

func cmdCheck(args []string) int {
	fs := flag.NewFlagSet("check", flag.ExitOnError)
	tier := fs.String("tier", "", "quick|thorough")
	repo := fs.String("repo", "/repo", "repository under check")
	hdir := fs.String("harness", filepath.Join(verifDir, "harness"), "harness directory")
	workers := fs.Int("workers", 0, "worker count (default: cores)")
	only := fs.String("only", "", "run only harnesses containing this substring")
	solver := fs.String("solver", "z3", "z3|z3-new|cvc5")
	timeout := fs.Int("timeout", 5000, "per-query timeout ms of the incremental solver (a one-shot fallback gets 8x)")
	budget := fs.Int("budget", 0, "wall-clock budget of the exploration in seconds (default: 1500 quick, 5400 thorough); when it is used up the run ends INCONCLUSIVE unless a counterexample was confirmed")
	cross := fs.String("cross", "", "after a clean run, explore the quick bounds again with this solver (z3-new|cvc5) and require the same verdicts (default in the thorough tier: z3-new; \"none\" disables)")
	noReplay := fs.Bool("no-replay", false, "skip native replay (debug)")
	noEvidence := fs.Bool("no-evidence", false, "do not write the evidence file")
	trace := fs.Bool("trace", false, "trace instructions")
	slog := fs.String("solver-log", "", "log solver dialogue to <path>.<worker>")
	var id string
	if len(args) > 0 && !strings.HasPrefix(args[0], "-") {
		id = args[0]
		args = args[1:]
	}
	fs.Parse(args)
	if id == "" && fs.NArg() > 0 {
		id = fs.Arg(0)
	}
	if id == "" {
		fmt.Fprintln(os.Stderr, "missing property id")
		return 2
	}
	if *tier == "" {
		*tier = os.Getenv("VERIF_TIER")
	}
	if *tier == "" {
		*tier = "quick"
	}
	seed := 0
	if s := os.Getenv("VERIF_SEED"); s != "" {
		seed, _ = strconv.Atoi(s)
	}
	if *workers <= 0 {
		*workers = runtime.NumCPU()
	}
	t0 := time.Now()
	P, err := loadProgram(*repo, *hdir)
	if err != nil {
		fmt.Fprintf(os.Stderr, "INCONCLUSIVE property=%s: cannot load %s: %v\n", id, *repo, err)
		writeEvidence(id, *tier, seed, nil, time.Since(t0).Seconds(), 0, []string{"load failed: " + err.Error()}, 0, *noEvidence)
		return 2
	}
	loadS := time.Since(t0).Seconds()
	hs := P.harnesses(id)
	if *only != "" {
		var f []string
		for _, h := range hs {
			if strings.Contains(h, *only) {
				f = append(f, h)
			}
		}
		hs = f
	}
	if len(hs) == 0 {
		fmt.Fprintf(os.Stderr, "INCONCLUSIVE property=%s: no harness\n", id)
		return 2
	}
	cfg := Config{Solver: *solver, TimeoutMs: *timeout, Unwind: 1024, StepLimit: 20_000_000, CaseMax: 32, Workers: *workers, SolverLog: *slog, Trace: *trace}
	if *tier == "thorough" {
		cfg.Tier = 1
		cfg.Unwind = 4096
		cfg.StepLimit = 200_000_000
	}
	R := NewResults()
	if id == "SELF" {
		R.wantVectors = 60
	}
	q := newQueue(cfg.Workers)
	theQueue = q
	// deterministic job order, rotated by seed
	for i := range hs {
		q.put(job{harness: hs[(i+seed)%len(hs)]})
	}
	stopProg := make(chan struct{})
	if os.Getenv("GOSMT_PROGRESS") != "" {
		go func() {
			for {
				select {
				case <-stopProg:
					return
				case <-time.After(5 * time.Second):
					R.mu.Lock()
					var parts []string
					for h, st := range R.PerHarness {
						parts = append(parts, fmt.Sprintf("%s=%d", h, st.Paths))
					}
					fmt.Fprintf(os.Stderr, "progress t=%.0fs paths=%d %v\n", time.Since(t0).Seconds(), R.Paths, parts)
					R.mu.Unlock()
				}
			}
		}()
	}
	if *budget <= 0 {
		*budget = 1500
		if *tier == "thorough" {
			*budget = 5400
		}
	}
	budgetTimer := time.AfterFunc(time.Duration(*budget)*time.Second, func() {
		R.stop(fmt.Sprintf("wall budget of %d s used up before the exploration finished", *budget))
	})
	var wg sync.WaitGroup
	for w := 0; w < cfg.Workers; w++ {
		wg.Add(1)
		go worker(w, P, q, R, cfg, &wg)
	}
	// watchdog: the stop flag is only honoured at path boundaries; a path that never ends (a blocked
	// scheduler, a solver that does not answer) must not hang the check
	doneCh := make(chan struct{})
	go func() { wg.Wait(); close(doneCh) }()
	stuck := false
	select {
	case <-doneCh:
	case <-time.After(time.Duration(*budget+120) * time.Second):
		stuck = true
		R.stop("exploration did not end within the wall budget (a path is stuck)")
	}
	if stuck {
		// abandon the stuck workers: replay what was found so far and leave
		R.mu.Lock()
		viol := append([]Violation{}, R.Violations...)
		R.mu.Unlock()
		Rs := NewResults()
		Rs.Violations = viol
		msg := fmt.Sprintf("exploration did not end within %d s after the wall budget of %d s: a path is stuck (abandoned)", 120, *budget)
		confirmed := 0
		var lines []string
		if !*noReplay && len(viol) > 0 {
			rr := nativeReplay(*repo, *hdir, id, Rs, cfg.Tier)
			confirmed, lines = rr.confirmed, rr.lines
		}
		writeEvidence(id, *tier, seed, nil, time.Since(t0).Seconds(), confirmed, []string{msg}, 0, *noEvidence)
		fmt.Printf("gosmt property=%s tier=%s harnesses=%d STUCK candidates=%d confirmed=%d\n", id, *tier, len(hs), len(viol), confirmed)
		for _, l := range lines {
			fmt.Println(l)
		}
		if confirmed > 0 {
			os.Exit(1)
		}
		fmt.Printf("INCONCLUSIVE property=%s: %s\n", id, msg)
		os.Exit(2)
	}
	budgetTimer.Stop()
	close(stopProg)
	exploreS := time.Since(t0).Seconds() - loadS

	if R.stopped() {
		// not everything was explored: never a success
		R.inconclusive(R.StopWhy)
	} else {
		// vacuity: every reach label of every harness must have been reached
		labels := reachLabels(P, hs)
		for _, h := range hs {
			for _, l := range labels[h] {
				if R.Reach[h][l] == 0 {
					R.inconclusive(fmt.Sprintf("vacuity: %s never reaches %q", h, l))
				}
			}
		}
	}

	if id == "C19" {
		for _, m := range lintFluent(P, hs) {
			R.inconclusive(m)
		}
	}

	// cross-solver pass (solver diff): only after a clean main run
	crossInfo := map[string]interface{}{}
	if *cross == "" && *tier == "thorough" && *only == "" {
		*cross = "z3-new"
	}
	if *cross != "" && *cross != "none" && *cross != *solver && len(R.Violations) == 0 && len(R.Inconclusive) == 0 {
		c0 := time.Now()
		cfg2 := cfg
		cfg2.Solver = *cross
		cfg2.Tier = 0
		cfg2.Unwind = 1024
		R2 := NewResults()
		q2 := newQueue(cfg2.Workers)
		theQueue = q2
		for i := range hs {
			q2.put(job{harness: hs[(i+seed)%len(hs)]})
		}
		t2 := time.AfterFunc(time.Duration(*budget)*time.Second, func() { R2.stop("wall budget used up in the cross-solver pass") })
		var wg2 sync.WaitGroup
		for w := 0; w < cfg2.Workers; w++ {
			wg2.Add(1)
			go worker(w, P, q2, R2, cfg2, &wg2)
		}
		wg2.Wait()
		t2.Stop()
		crossInfo = map[string]interface{}{"solver": *cross, "bounds": "quick", "paths": R2.Paths, "obligations": R2.Obligations, "discharged": R2.Discharged,
			"queries": R2.Solver.Queries, "unknown": R2.Solver.Unknown, "errors": R2.Solver.Errors, "solver_s": round3(R2.Solver.Seconds), "wall_s": round3(time.Since(c0).Seconds())}
		if R2.stopped() {
			R.inconclusive("cross-solver pass (" + *cross + "): " + R2.StopWhy)
		}
		if len(R2.Violations) > 0 {
			R.inconclusive(fmt.Sprintf("solver disagreement: %s finds %d counterexample candidates where %s found none (first: %s %q)", *cross, len(R2.Violations), *solver, R2.Violations[0].Harness, R2.Violations[0].Msg))
		}
		for _, m := range R2.Inconclusive {
			R.inconclusive("cross-solver pass (" + *cross + "): " + m)
		}
		fmt.Printf("gosmt cross-solver pass solver=%s paths=%d obligations=%d discharged=%d wall_s=%.1f\n", *cross, R2.Paths, R2.Obligations, R2.Discharged, time.Since(c0).Seconds())
	}

	// native replay: counterexamples + translator-validation vectors
	confirmed := 0
	unreproduced := 0
	validated := 0
	var violLines []string
	if !*noReplay {
		rr := nativeReplay(*repo, *hdir, id, R, cfg.Tier)
		confirmed = rr.confirmed
		unreproduced = rr.unreproduced
		validated = rr.validated
		violLines = rr.lines
		for _, m := range rr.problems {
			R.inconclusive(m)
		}
	} else {
		for i, v := range R.Violations {
			fmt.Printf("CANDIDATE %d harness=%s msg=%q inputs=%v\n", i, v.Harness, v.Msg, v.Inputs)
		}
	}
	wall := time.Since(t0).Seconds()
	cov := buildCoverage(P, R, hs, cfg, *tier, loadS, exploreS, validated, confirmed, unreproduced)
	if len(crossInfo) > 0 {
		cov["cross_checked_with"] = crossInfo
	}
	writeEvidence(id, *tier, seed, cov, wall, confirmed, assumptionsFor(R), 0, *noEvidence)

	fmt.Printf("gosmt property=%s tier=%s harnesses=%d paths=%d obligations=%d discharged=%d queries=%d solver_s=%.1f wall_s=%.1f candidates=%d confirmed=%d validated_vectors=%d\n",
		id, *tier, len(hs), R.Paths, R.Obligations, R.Discharged, R.Solver.Queries, R.Solver.Seconds, wall, len(R.Violations), confirmed, validated)
	for _, l := range violLines {
		fmt.Println(l)
	}
	if confirmed > 0 {
		return 1
	}
	if len(R.Inconclusive) > 0 {
		for _, m := range R.Inconclusive {
			fmt.Printf("INCONCLUSIVE property=%s: %s\n", id, m)
		}
		return 2
	}
	return 0
}

func reachLabels(P *Program, hs []string) map[string][]string {
	out := map[string][]string{}
	for _, h := range hs {
		fn := P.pkg.Func(h)
		seen := map[*ssa.Function]bool{}
		var walk func(f *ssa.Function)
		walk = func(f *ssa.Function) {
			if f == nil || seen[f] || f.Pkg != P.pkg {
				return
			}
			seen[f] = true
			for _, b := range f.Blocks {
				for _, in := range b.Instrs {
					c, ok := in.(*ssa.Call)
					if !ok {
						continue
					}
					if callee := c.Call.StaticCallee(); callee != nil {
						if callee.Name() == "verifReach" && len(c.Call.Args) == 1 {
							if k, ok := c.Call.Args[0].(*ssa.Const); ok {
								out[h] = append(out[h], constantString(k))
							}
						}
					}
				}
			}
			for _, af := range f.AnonFuncs {
				walk(af)
			}
		}
		walk(fn)
	}
	return out
}

func assumptionsFor(R *Results) []string {
	a := []string{
		"Go SSA (golang.org/x/tools v0.29.0 go/ssa, generics instantiated) faithfully represents the compiled code; the executor's instruction semantics are validated per run by replaying solver models of explored paths natively (traces_validated_against_impl)",
		"bounds are those listed under coverage.bounds; nothing outside them is claimed",
		"package-level state of the standard library is immutable after initialisation",
		"platform: linux/amd64, int = 64 bit; append capacity growth replayed from the Go runtime that built the engine",
	}
	var stubs []string
	for s := range R.Stubs {
		if !strings.HasPrefix(s, hp) {
			stubs = append(stubs, s)
		}
	}
	sort.Strings(stubs)
	if len(stubs) > 0 {
		a = append(a, "environment model (DESIGN.md §3) used on these calls: "+strings.Join(stubs, ", "))
	}
	for s := range R.Stubs {
		switch s {
		case "strconv.FormatFloat", "strconv.ParseFloat":
			a = append(a, "float text: shape contract + uninterpreted round-trip function PF (digits of FormatFloat / value of ParseFloat are library contract, not decided here)")
		case "strconv.Itoa", "strconv.FormatInt":
			a = append(a, "int text: Itoa is the positional-sum contract over fresh digit bytes; ParseInt is the real code")
		}
	}
	sort.Strings(a[4:])
	// dedupe
	var out []string
	seen := map[string]bool{}
	for _, s := range a {
		if !seen[s] {
			seen[s] = true
			out = append(out, s)
		}
	}
	return out
}

func buildCoverage(P *Program, R *Results, hs []string, cfg Config, tier string, loadS, exploreS float64, validated, confirmed, unreproduced int) map[string]interface{} {
	type fe struct {
		Name   string `json:"name"`
		Instrs int    `json:"ssa_instructions"`
		Calls  int64  `json:"calls"`
	}
	var anyF, stdF []fe
	for name, n := range R.Funcs {
		e := fe{Name: name, Instrs: R.FuncInstr[name], Calls: n}
		if strings.Contains(name, "DanielSvub/anytype") {
			if strings.Contains(name, ".H_") || strings.Contains(name, ".verif") || strings.Contains(name, ".nondet") || strings.Contains(name, ".ref") || strings.Contains(name, ".h") {
				continue
			}
			anyF = append(anyF, e)
		} else {
			stdF = append(stdF, e)
		}
	}
	sort.Slice(anyF, func(i, j int) bool { return anyF[i].Name < anyF[j].Name })
	sort.Slice(stdF, func(i, j int) bool { return stdF[i].Name < stdF[j].Name })
	var stubs []string
	for s, n := range R.Stubs {
		if !strings.HasPrefix(s, hp) {
			stubs = append(stubs, fmt.Sprintf("%s ×%d", s, n))
		}
	}
	sort.Strings(stubs)
	samples := make([]interface{}, 0, len(R.Samples))
	for _, s := range R.Samples {
		samples = append(samples, s)
	}
	if len(samples) == 0 {
		samples = append(samples, map[string]string{"note": "no non-trivial obligation reached the solver (all folded by the term simplifier)"})
	}
	states := R.Paths
	if states < 1 {
		states = 1
	}
	trans := R.InstrsTotal
	if trans < 1 {
		trans = 1
	}
	cov := map[string]interface{}{
		"states":                        states,
		"transitions":                   trans,
		"traces_validated_against_impl": validated + confirmed + unreproduced,
		"samples":                       samples,
		"exhaustive":                    len(R.Inconclusive) == 0,
		"explanation":                   "states = feasible paths of the harnesses explored symbolically over the real SSA of /repo (every branch decided by the SMT solver; inputs are symbolic, so one path covers every input that takes it); transitions = SSA instructions executed symbolically (prefix re-execution included); traces_validated_against_impl = solver models of explored paths (and counterexamples) replayed against the natively compiled package",
		"harnesses":                     hs,
		"per_harness":                   R.PerHarness,
		"bounds":                        R.Bounds,
		"unwind_bound":                  cfg.Unwind,
		"unwind_failures":               countPrefix(R.Inconclusive, "unwinding"),
		"obligations":                   R.Obligations,
		"discharged":                    R.Discharged,
		"discharged_by_simplifier":      R.Trivial,
		"paths_dropped_by_assume":       R.PathsDropped,
		"reach_labels":                  R.Reach,
		"queries": map[string]interface{}{
			"total": R.Solver.Queries, "feasibility": R.Feasibility, "feasibility_answered_by_model_cache": R.CacheHits, "assertion": R.AssertQueries,
			"sat": R.Solver.Sat, "unsat": R.Solver.Unsat, "unknown": R.Solver.Unknown, "errors": R.Solver.Errors,
		},
		"solver":                   cfg.Solver,
		"solver_s":                 round3(R.Solver.Seconds),
		"solver_max_query_s":       round3(R.Solver.MaxQuery),
		"load_s":                   round3(loadS),
		"explore_s":                round3(exploreS),
		"functions_encoded":        map[string]interface{}{"anytype": anyF, "stdlib_real_ssa": stdF},
		"stubs":                    stubs,
		"inconclusive":             R.Inconclusive,
		"counterexamples_confirmed": confirmed,
		"counterexamples_unreproduced": unreproduced,
		"init_warnings":            len(R.InitWarn),
		"checker_cmd":              "bin/gosmt check " + strings.TrimPrefix(strings.SplitN(hs[0], "_", 3)[1], "") + " --tier " + tier,
		"trusted_base": []string{
			"golang.org/x/tools v0.29.0 go/packages + go/ssa (SSA of /repo's working tree, generics instantiated)",
			"gosmt: this framework's symbolic executor for Go SSA and its term simplifier (cross-checked each run by replaying solver models of explored paths natively; `gosmt check SELF` for the library models)",
			cfg.Solver + " (incremental, one process per worker; one-shot fallback on unknown; any (error line = inconclusive)",
			"the environment model listed under stubs / assumptions (DESIGN.md §3, §13.2)",
			"the reference models in /verif/harness (refjson, refIndent, sequence/map models), executed symbolically beside the real code",
		},
	}
	return cov
}

func countPrefix(ss []string, sub string) int {
	n := 0
	for _, s := range ss {
		if strings.Contains(s, sub) {
			n++
		}
	}
	return n
}

func round3(f float64) float64 { return float64(int64(f*1000)) / 1000 }

func writeEvidence(id, tier string, seed int, cov map[string]interface{}, wall float64, violations int, assumptions []string, _ int, skip bool) {
	if skip {
		return
	}
	if cov == nil {
		cov = map[string]interface{}{"states": 1, "transitions": 1, "traces_validated_against_impl": 0, "samples": []interface{}{"load failure"}, "explanation": "run did not start"}
	}
	ev := Evidence{PropertyID: id, Tier: tier, Seed: seed, Level: "model_checking", Coverage: cov, Assumptions: assumptions, WallS: round3(wall), Violations: violations}
	b, _ := json.MarshalIndent(ev, "", " ")
	os.MkdirAll(filepath.Join(verifDir, "evidence"), 0o755)
	os.WriteFile(filepath.Join(verifDir, "evidence", id+".json"), append(b, '\n'), 0o644)
}

// ---- native replay ----

type replayResult struct {
	confirmed    int
	unreproduced int
	validated    int
	lines        []string
	problems     []string
}

type vectorFile struct {
	Tier    int            `json:"tier"`
	Vectors []nativeVector `json:"vectors"`
}

type nativeVector struct {
	Harness  string        `json:"harness"`
	Inputs   []ReplayInput `json:"inputs"`
	Observes []string      `json:"observes"`
	Expect   string        `json:"expect"` // "pass" or "fail"
	Msg      string        `json:"msg"`
}

func nativeReplay(repo, hdir, id string, R *Results, tier int) replayResult {
	var rr replayResult
	var vf vectorFile
	vf.Tier = tier
	for _, v := range R.Violations {
		vf.Vectors = append(vf.Vectors, nativeVector{Harness: v.Harness, Inputs: v.Inputs, Expect: "fail", Msg: v.Msg})
	}
	nViol := len(vf.Vectors)
	for _, p := range R.Vectors {
		vf.Vectors = append(vf.Vectors, nativeVector{Harness: p.Harness, Inputs: p.Inputs, Observes: p.Observes, Expect: "pass"})
	}
	if len(vf.Vectors) == 0 {
		return rr
	}
	results, err := runNative(repo, hdir, vf, 9)
	if err != nil {
		rr.problems = append(rr.problems, "native replay failed: "+err.Error())
		return rr
	}
	os.MkdirAll(filepath.Join(verifDir, "replays"), 0o755)
	for i, v := range vf.Vectors {
		res := results[i]
		if i < nViol {
			if res.status == "ASSERTFAIL" || res.status == "PANIC" {
				path := filepath.Join(verifDir, "replays", fmt.Sprintf("%s-%s-%d.json", id, v.Harness, i))
				b, _ := json.MarshalIndent(vectorFile{Tier: vf.Tier, Vectors: []nativeVector{v}}, "", " ")
				os.WriteFile(path, b, 0o644)
				rr.confirmed++
				rr.lines = append(rr.lines, fmt.Sprintf("VIOLATION property=%s replay=%s", id, path))
				rr.lines = append(rr.lines, fmt.Sprintf("  harness=%s assertion=%q native=%s %s", v.Harness, v.Msg, res.status, res.msg))
			} else {
				rr.unreproduced++
				path := filepath.Join(verifDir, "replays", fmt.Sprintf("%s-%s-%d.unreproduced.json", id, v.Harness, i))
				b, _ := json.MarshalIndent(vectorFile{Tier: vf.Tier, Vectors: []nativeVector{v}}, "", " ")
				os.WriteFile(path, b, 0o644)
				rr.problems = append(rr.problems, fmt.Sprintf("UNREPRODUCED counterexample for %s %q (native: %s %s) saved as %s — encoding or stub too loose", v.Harness, v.Msg, res.status, res.msg, path))
			}
			continue
		}
		switch res.status {
		case "PASS":
			rr.validated++
		case "SKIP":
			// model did not satisfy a native-side assumption (stub looseness): not counted
		default:
			rr.problems = append(rr.problems, fmt.Sprintf("translator validation: path model of %s fails natively: %s %s", v.Harness, res.status, res.msg))
		}
	}
	return rr
}

type nativeRes struct {
	status string
	msg    string
}

// runNative compiles the harness into the real package (go test -overlay) and runs the vectors.
func runNative(repo, hdir string, vf vectorFile, retries int) ([]nativeRes, error) {
	work, err := os.MkdirTemp("", "gosmt-replay-")
	if err != nil {
		return nil, err
	}
	defer os.RemoveAll(work)
	files, err := harnessFiles(hdir)
	if err != nil {
		return nil, err
	}
	repl := map[string]string{}
	for _, f := range files {
		repl[filepath.Join(repo, "zz_verif_"+filepath.Base(f))] = f
	}
	repl[filepath.Join(repo, "zz_verif_replay_test.go")] = filepath.Join(hdir, "native", "replay_test.go.txt")
	// registry of harness functions (generated)
	var reg strings.Builder
	reg.WriteString("package anytype\n\nvar verifHarnesses = map[string]func(){\n")
	for _, f := range files {
		src, _ := os.ReadFile(f)
		for _, m := range harnessDecl.FindAllStringSubmatch(string(src), -1) {
			fmt.Fprintf(&reg, "\t%q: %s,\n", m[1], m[1])
		}
	}
	reg.WriteString("}\n")
	regPath := filepath.Join(work, "registry_test.go")
	os.WriteFile(regPath, []byte(reg.String()), 0o644)
	repl[filepath.Join(repo, "zz_verif_registry_test.go")] = regPath
	ov, _ := json.Marshal(map[string]interface{}{"Replace": repl})
	ovPath := filepath.Join(work, "overlay.json")
	os.WriteFile(ovPath, ov, 0o644)
	vecPath := filepath.Join(work, "vectors.json")
	out := make([]nativeRes, len(vf.Vectors))
	pending := map[int]bool{}
	for i := range out {
		pending[i] = true
	}
	for attempt := 0; attempt < retries+2 && len(pending) > 0; attempt++ {
		// vectors still to be (re)run, in index order
		var idxs []int
		for i := range vf.Vectors {
			if pending[i] {
				idxs = append(idxs, i)
			}
		}
		sub := vectorFile{Tier: vf.Tier}
		for _, i := range idxs {
			sub.Vectors = append(sub.Vectors, vf.Vectors[i])
		}
		b, _ := json.Marshal(sub)
		os.WriteFile(vecPath, b, 0o644)
		args := []string{"test", "-v", "-vet=off", "-count=1", "-timeout", "90s", "-run", "^TestVerifReplay$", "-overlay", ovPath}
		env := append(goEnv(), "VERIF_VECTORS="+vecPath)
		race := false
		for _, v := range sub.Vectors {
			if strings.HasPrefix(v.Harness, "H_C15") {
				race = true
			}
		}
		if race {
			// schedule-dependent counterexamples: real goroutines under the Go race detector, many repetitions
			args = append(args, "-race")
			env = append(env, "CGO_ENABLED=1", "VERIF_REPEAT=200")
		}
		args = append(args, ".")
		cmd := exec.Command("go", args...)
		cmd.Dir = repo
		cmd.Env = env
		outb, err := cmd.CombinedOutput()
		text := string(outb)
		got := 0
		raceSeen := false
		seenIdx := map[int]bool{}
		for _, line := range strings.Split(text, "\n") {
			line = strings.TrimSpace(line)
			if strings.Contains(line, "WARNING: DATA RACE") {
				raceSeen = true
			}
			if !strings.HasPrefix(line, "VERIF-RESULT ") {
				continue
			}
			parts := strings.SplitN(line, " ", 4)
			if len(parts) < 3 {
				continue
			}
			k, e := strconv.Atoi(parts[1])
			if e != nil || k < 0 || k >= len(idxs) {
				continue
			}
			idx := idxs[k]
			got++
			seenIdx[idx] = true
			status, msg := parts[2], ""
			if len(parts) == 4 {
				msg = parts[3]
			}
			if raceSeen {
				if status == "PASS" {
					status, msg = "ASSERTFAIL", "data race reported by the Go race detector"
				}
				raceSeen = false
			}
			out[idx] = nativeRes{status: status, msg: msg}
			want := vf.Vectors[idx].Expect
			if (want == "fail" && (status == "ASSERTFAIL" || status == "PANIC")) || (want == "pass" && status == "PASS") || attempt >= retries-1 {
				delete(pending, idx)
			}
		}
		if got < len(idxs) && strings.Contains(text, "panic: test timed out") {
			// the replay hangs (a deadlock or livelock in the code under test): that is a failing run of the
			// first vector without a result
			for _, idx := range idxs {
				if !seenIdx[idx] {
					out[idx] = nativeRes{status: "PANIC", msg: "the native run does not terminate (test timed out after 90 s)"}
					delete(pending, idx)
					break
				}
			}
			continue
		}
		if got < len(idxs) && strings.Contains(text, "fatal error:") {
			// the process died (e.g. "concurrent map writes"): attribute it to the first vector without a result
			for _, idx := range idxs {
				if !seenIdx[idx] {
					msg := "fatal error"
					if p := strings.Index(text, "fatal error:"); p >= 0 {
						msg = strings.SplitN(text[p:], "\n", 2)[0]
					}
					out[idx] = nativeRes{status: "PANIC", msg: msg}
					delete(pending, idx)
					break
				}
			}
			continue
		}
		if got == 0 {
			if err != nil {
				return nil, fmt.Errorf("go test: %v\n%s", err, tail(text, 2000))
			}
			return nil, fmt.Errorf("no results in go test output:\n%s", tail(text, 2000))
		}
	}
	return out, nil
}

func tail(s string, n int) string {
	if len(s) > n {
		return s[len(s)-n:]
	}
	return s
}

func cmdReplay(args []string) int {
	fs := flag.NewFlagSet("replay", flag.ExitOnError)
	repo := fs.String("repo", "/repo", "repository")
	hdir := fs.String("harness", filepath.Join(verifDir, "harness"), "harness directory")
	var path string
	if len(args) > 0 && !strings.HasPrefix(args[0], "-") {
		path = args[0]
		args = args[1:]
	}
	fs.Parse(args)
	if path == "" {
		fmt.Fprintln(os.Stderr, "usage: gosmt replay <file>")
		return 2
	}
	b, err := os.ReadFile(path)
	if err != nil {
		fmt.Fprintln(os.Stderr, err)
		return 2
	}
	var vf vectorFile
	if err := json.Unmarshal(b, &vf); err != nil {
		fmt.Fprintln(os.Stderr, err)
		return 2
	}
	res, err := runNative(*repo, *hdir, vf, 4)
	if err != nil {
		fmt.Fprintln(os.Stderr, err)
		return 2
	}
	rc := 0
	for i, r := range res {
		fmt.Printf("%s %s: %s %s\n", vf.Vectors[i].Harness, vf.Vectors[i].Msg, r.status, r.msg)
		if r.status == "ASSERTFAIL" || r.status == "PANIC" {
			rc = 1
		}
	}
	return rc
}

// lintFluent: every method of the List/Object interfaces that returns the interface itself and is
// not a known deriving operation must be invoked by the C19 harnesses (so that a fluent method
// added to the interface is noticed instead of silently ignored).
func lintFluent(P *Program, hs []string) []string {
	deriving := map[string]bool{"GetList": true, "GetObject": true, "Clone": true, "Concat": true, "SubList": true, "Merge": true, "Pluck": true,
		"Keys": true, "Values": true, "MapAsync": true}
	var out []string
	called := map[string]bool{}
	seen := map[*ssa.Function]bool{}
	var walk func(f *ssa.Function)
	walk = func(f *ssa.Function) {
		if f == nil || seen[f] {
			return
		}
		seen[f] = true
		for _, b := range f.Blocks {
			for _, in := range b.Instrs {
				if c, ok := in.(ssa.CallInstruction); ok {
					cc := c.Common()
					if cc.Method != nil {
						if n, ok := cc.Value.Type().(*types.Named); ok {
							called[n.Obj().Name()+"."+cc.Method.Name()] = true
						}
					} else if callee := cc.StaticCallee(); callee != nil && callee.Pkg == P.pkg && strings.HasPrefix(callee.Name(), "h") {
						walk(callee)
					}
				}
			}
		}
		for _, af := range f.AnonFuncs {
			walk(af)
		}
	}
	for _, h := range hs {
		walk(P.pkg.Func(h))
	}
	for _, iname := range []string{"List", "Object"} {
		obj := P.pkg.Pkg.Scope().Lookup(iname)
		if obj == nil {
			continue
		}
		it, ok := obj.Type().Underlying().(*types.Interface)
		if !ok {
			continue
		}
		for i := 0; i < it.NumMethods(); i++ {
			m := it.Method(i)
			sig := m.Type().(*types.Signature)
			if sig.Results().Len() != 1 || !types.Identical(sig.Results().At(0).Type(), obj.Type()) {
				continue
			}
			name := m.Name()
			if deriving[name] || strings.HasPrefix(name, "Map") || strings.HasPrefix(name, "Filter") {
				continue
			}
			if !called[iname+"."+name] {
				out = append(out, fmt.Sprintf("interface %s has a method %s returning %s that the C19 harness does not exercise (new fluent method?)", iname, name, iname))
			}
		}
	}
	return out
}
