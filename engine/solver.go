package main

// One live SMT solver process per worker, driven over stdin/stdout with push/pop.

import (
	"bufio"
	"fmt"
	"io"
	"os"
	"os/exec"
	"strconv"
	"strings"
	"time"
)

type SolverStats struct {
	Queries  int
	Sat      int
	Unsat    int
	Unknown  int
	Errors   int
	Seconds  float64
	MaxQuery float64
}

type Solver struct {
	kind     string
	cmd      *exec.Cmd
	in       *bufio.Writer
	out      *bufio.Reader
	level    int
	declared map[string]int // name -> level at which it was declared
	Stats    SolverStats
	log      io.Writer
	dead     bool
	lastErr  string
	lastStandalone bool
	curTimeout int
	frames     [][]string // mirror of declarations and assertions per push level
	fallbackMs int
	fpFrames   []int
	Fallbacks  int
}

func solverArgs(kind string, timeoutMs int) (string, []string) {
	switch kind {
	case "z3":
		return "z3", []string{"-in", "-smt2", fmt.Sprintf("-t:%d", timeoutMs)}
	case "z3-new":
		return "z3-new", []string{"-in", "-smt2", fmt.Sprintf("-t:%d", timeoutMs)}
	case "cvc5":
		return "cvc5", []string{"--incremental", "--lang=smt2", "--produce-models", fmt.Sprintf("--tlimit-per=%d", timeoutMs)}
	}
	panic("unknown solver " + kind)
}

func NewSolver(kind string, timeoutMs int, logPath string) (*Solver, error) {
	bin, args := solverArgs(kind, timeoutMs)
	cmd := exec.Command(bin, args...)
	stdin, err := cmd.StdinPipe()
	if err != nil {
		return nil, err
	}
	stdout, err := cmd.StdoutPipe()
	if err != nil {
		return nil, err
	}
	cmd.Stderr = os.Stderr
	if err := cmd.Start(); err != nil {
		return nil, err
	}
	s := &Solver{kind: kind, cmd: cmd, in: bufio.NewWriterSize(stdin, 1<<16), out: bufio.NewReaderSize(stdout, 1<<16), declared: map[string]int{}, frames: [][]string{nil}, fallbackMs: 8 * timeoutMs}
	if logPath != "" {
		f, err := os.Create(logPath)
		if err == nil {
			s.log = f
		}
	}
	s.send("(set-option :produce-models true)")
	if kind == "cvc5" {
		s.send("(set-logic ALL)")
	}
	return s, nil
}

func (s *Solver) Close() {
	if s.cmd != nil && s.cmd.Process != nil {
		s.in.WriteString("(exit)\n")
		s.in.Flush()
		done := make(chan struct{})
		go func() { s.cmd.Wait(); close(done) }()
		select {
		case <-done:
		case <-time.After(2 * time.Second):
			s.cmd.Process.Kill()
		}
	}
}

func (s *Solver) send(line string) {
	if s.log != nil {
		fmt.Fprintln(s.log, line)
	}
	s.in.WriteString(line)
	s.in.WriteByte('\n')
}

// SetTimeout changes the per-query time limit (milliseconds).
func (s *Solver) SetTimeout(ms int) {
	if ms == s.curTimeout {
		return
	}
	s.curTimeout = ms
	if s.kind == "cvc5" {
		s.send(fmt.Sprintf("(set-option :tlimit-per %d)", ms))
	} else {
		s.send(fmt.Sprintf("(set-option :timeout %d)", ms))
	}
}

func (s *Solver) Push() {
	s.level++
	s.frames = append(s.frames, nil)
	for len(s.fpFrames) < len(s.frames) {
		s.fpFrames = append(s.fpFrames, 0)
	}
	s.fpFrames[len(s.frames)-1] = 0
	s.send("(push 1)")
}

func (s *Solver) Pop(n int) {
	if n <= 0 {
		return
	}
	s.level -= n
	s.frames = s.frames[:len(s.frames)-n]
	if len(s.fpFrames) > len(s.frames) {
		s.fpFrames = s.fpFrames[:len(s.frames)]
	}
	s.send(fmt.Sprintf("(pop %d)", n))
	for k, l := range s.declared {
		if l > s.level {
			delete(s.declared, k)
		}
	}
}

func (s *Solver) declare(vars []*Term, ufs map[string]*Term) {
	for _, v := range vars {
		if _, ok := s.declared[v.name]; !ok {
			s.declared[v.name] = s.level
			line := fmt.Sprintf("(declare-const %s %s)", v.name, v.sort)
			s.frames[len(s.frames)-1] = append(s.frames[len(s.frames)-1], line)
			s.send(line)
		}
	}
	for name, t := range ufs {
		if _, ok := s.declared[name]; !ok {
			s.declared[name] = s.level
			line := fmt.Sprintf("(declare-fun %s (%s) %s)", name, t.a0.sort, t.sort)
			s.frames[len(s.frames)-1] = append(s.frames[len(s.frames)-1], line)
			s.send(line)
		}
	}
}

func (s *Solver) Assert(t *Term) {
	if t.op == OConst && t.u == 1 {
		return
	}
	txt, vars, ufs := PrintTerm(t)
	s.declare(vars, ufs)
	line := "(assert " + txt + ")"
	s.frames[len(s.frames)-1] = append(s.frames[len(s.frames)-1], line)
	if strings.Contains(txt, "fp.") || strings.Contains(txt, "to_fp") {
		for len(s.fpFrames) < len(s.frames) {
			s.fpFrames = append(s.fpFrames, 0)
		}
		s.fpFrames[len(s.frames)-1]++
	}
	s.send(line)
}

func (s *Solver) readLine() (string, error) {
	for {
		line, err := s.out.ReadString('\n')
		if err != nil {
			s.dead = true
			return "", err
		}
		line = strings.TrimSpace(line)
		if line == "" {
			continue
		}
		if s.log != nil {
			fmt.Fprintln(s.log, "; <- "+line)
		}
		return line, nil
	}
}

// Check returns "sat", "unsat" or "unknown". The incremental answer is used when there is one;
// on "unknown" (z3's incremental core is much weaker on floating point than its one-shot
// tactics) the current assertion stack is re-solved by a fresh one-shot solver process.
func (s *Solver) Check() string {
	// floating-point content: give the incremental core only a short try
	if s.kind != "cvc5" && s.stackHasFP() {
		saved := s.curTimeout
		if saved > 1000 || saved == 0 {
			s.SetTimeout(1000)
			r := s.checkWithFallback()
			s.SetTimeout(saved)
			return r
		}
	}
	return s.checkWithFallback()
}

func (s *Solver) stackHasFP() bool {
	for len(s.fpFrames) < len(s.frames) {
		s.fpFrames = append(s.fpFrames, 0)
	}
	for i := range s.frames {
		if s.fpFrames[i] > 0 {
			return true
		}
	}
	return false
}

func (s *Solver) checkWithFallback() string {
	r := s.checkInc()
	if r != "unknown" || s.kind == "cvc5" {
		s.lastStandalone = false
		return r
	}
	r2, _ := s.standalone(nil)
	s.Fallbacks++
	if r2 == "sat" || r2 == "unsat" {
		s.Stats.Unknown--
		if r2 == "sat" {
			s.Stats.Sat++
		} else {
			s.Stats.Unsat++
		}
		s.lastStandalone = r2 == "sat"
		return r2
	}
	return "unknown"
}

// standalone solves the mirrored assertion stack in a fresh process; when terms are given and the
// answer is sat it also evaluates them.
func (s *Solver) standalone(ts []*Term) (string, []uint64) {
	var sb strings.Builder
	sb.WriteString("(set-option :produce-models true)\n")
	for _, fr := range s.frames {
		for _, l := range fr {
			sb.WriteString(l)
			sb.WriteByte('\n')
		}
	}
	sb.WriteString("(check-sat)\n")
	if len(ts) > 0 {
		sb.WriteString("(get-value (")
		for _, t := range ts {
			txt, _, _ := PrintTerm(t)
			sb.WriteString(txt)
			sb.WriteByte(' ')
		}
		sb.WriteString("))\n")
	}
	f, err := os.CreateTemp("", "gosmt-q-*.smt2")
	if err != nil {
		return "unknown", nil
	}
	defer os.Remove(f.Name())
	f.WriteString(sb.String())
	f.Close()
	bin := "z3"
	if s.kind == "z3-new" {
		bin = "z3-new"
	}
	t0 := time.Now()
	out, _ := exec.Command(bin, fmt.Sprintf("-T:%d", s.fallbackMs/1000+1), f.Name()).CombinedOutput()
	s.Stats.Seconds += time.Since(t0).Seconds()
	text := string(out)
	if strings.Contains(text, "(error") {
		s.lastErr = strings.TrimSpace(text)
		return "unknown", nil
	}
	lines := strings.SplitN(strings.TrimSpace(text), "\n", 2)
	switch strings.TrimSpace(lines[0]) {
	case "unsat":
		return "unsat", nil
	case "sat":
		if len(ts) > 0 && len(lines) == 2 {
			vals, err := parseValues(lines[1])
			if err == nil && len(vals) == len(ts) {
				return "sat", vals
			}
			return "sat", nil
		}
		return "sat", nil
	}
	return "unknown", nil
}

func (s *Solver) checkInc() string {
	s.send("(check-sat)")
	s.in.Flush()
	t0 := time.Now()
	res := "unknown"
	for {
		line, err := s.readLine()
		if err != nil {
			s.lastErr = err.Error()
			s.Stats.Errors++
			break
		}
		if strings.HasPrefix(line, "(error") {
			s.lastErr = line
			s.Stats.Errors++
			// keep reading until the verdict line arrives (z3 still answers); the answer is not trusted
			res = "error"
			continue
		}
		if line == "sat" || line == "unsat" || line == "unknown" || strings.HasPrefix(line, "timeout") {
			if res == "error" {
				res = "unknown"
			} else if line == "sat" || line == "unsat" {
				res = line
			} else {
				res = "unknown"
			}
			break
		}
		// unsupported / other noise
		if line == "unsupported" {
			continue
		}
	}
	d := time.Since(t0).Seconds()
	s.Stats.Queries++
	s.Stats.Seconds += d
	if d > s.Stats.MaxQuery {
		s.Stats.MaxQuery = d
	}
	switch res {
	case "sat":
		s.Stats.Sat++
	case "unsat":
		s.Stats.Unsat++
	default:
		s.Stats.Unknown++
	}
	return res
}

// CheckWith: is (current assertions ∧ t) satisfiable? Leaves the stack unchanged.
func (s *Solver) CheckWith(t *Term) string {
	if t.op == OConst {
		if t.u == 0 {
			return "unsat"
		}
	}
	s.Push()
	s.Assert(t)
	r := s.Check()
	s.Pop(1)
	return r
}

// GetValues evaluates BV/Bool terms in the current model (must follow a sat Check at the same stack).
func (s *Solver) GetValues(ts []*Term) ([]uint64, error) {
	if s.lastStandalone {
		// the incremental process has no model: evaluate in a one-shot run
		for _, t := range ts {
			_, vars, ufs := PrintTerm(t)
			s.declare(vars, ufs)
		}
		r, vals := s.standalone(ts)
		if r != "sat" || vals == nil {
			return nil, fmt.Errorf("one-shot model evaluation failed (%s)", r)
		}
		return vals, nil
	}
	out := make([]uint64, len(ts))
	// batch in chunks
	for start := 0; start < len(ts); start += 64 {
		end := start + 64
		if end > len(ts) {
			end = len(ts)
		}
		var sb strings.Builder
		sb.WriteString("(get-value (")
		for _, t := range ts[start:end] {
			txt, vars, ufs := PrintTerm(t)
			s.declare(vars, ufs)
			sb.WriteString(txt)
			sb.WriteByte(' ')
		}
		sb.WriteString("))")
		s.send(sb.String())
		s.in.Flush()
		text, err := s.readSexp()
		if err != nil {
			return nil, err
		}
		vals, err := parseValues(text)
		if err != nil {
			return nil, fmt.Errorf("get-value: %v in %q", err, text)
		}
		if len(vals) != end-start {
			return nil, fmt.Errorf("get-value: got %d values for %d terms: %q", len(vals), end-start, text)
		}
		copy(out[start:end], vals)
	}
	return out, nil
}

// readSexp reads one complete s-expression (possibly multi-line).
func (s *Solver) readSexp() (string, error) {
	var sb strings.Builder
	depth := 0
	started := false
	for {
		line, err := s.out.ReadString('\n')
		if err != nil {
			s.dead = true
			return "", err
		}
		if s.log != nil {
			fmt.Fprint(s.log, "; <- "+line)
		}
		for _, c := range line {
			if c == '(' {
				depth++
				started = true
			} else if c == ')' {
				depth--
			}
		}
		sb.WriteString(line)
		if started && depth <= 0 {
			break
		}
	}
	txt := sb.String()
	if strings.Contains(txt, "(error") {
		return "", fmt.Errorf("solver error: %s", txt)
	}
	return txt, nil
}

// parseValues parses "((expr val) (expr val) ...)" where each val is #x.., #b.., true/false,
// (_ bvN W), or (fp ...). Because expr may itself contain parentheses, we parse s-expressions properly.
func parseValues(text string) ([]uint64, error) {
	toks := tokenize(text)
	pos := 0
	var parse func() (interface{}, error)
	parse = func() (interface{}, error) {
		if pos >= len(toks) {
			return nil, fmt.Errorf("eof")
		}
		t := toks[pos]
		pos++
		if t == "(" {
			var l []interface{}
			for pos < len(toks) && toks[pos] != ")" {
				e, err := parse()
				if err != nil {
					return nil, err
				}
				l = append(l, e)
			}
			pos++
			return l, nil
		}
		return t, nil
	}
	top, err := parse()
	if err != nil {
		return nil, err
	}
	lst, ok := top.([]interface{})
	if !ok {
		return nil, fmt.Errorf("not a list")
	}
	var out []uint64
	for _, pair := range lst {
		pl, ok := pair.([]interface{})
		if !ok || len(pl) != 2 {
			return nil, fmt.Errorf("bad pair")
		}
		v, err := valueOf(pl[1])
		if err != nil {
			return nil, err
		}
		out = append(out, v)
	}
	return out, nil
}

func valueOf(e interface{}) (uint64, error) {
	switch v := e.(type) {
	case string:
		switch {
		case v == "true":
			return 1, nil
		case v == "false":
			return 0, nil
		case strings.HasPrefix(v, "#x"):
			if len(v) > 18 {
				return 0, fmt.Errorf("wide value %s", v)
			}
			return strconv.ParseUint(v[2:], 16, 64)
		case strings.HasPrefix(v, "#b"):
			if len(v) > 66 {
				return 0, fmt.Errorf("wide value %s", v)
			}
			return strconv.ParseUint(v[2:], 2, 64)
		}
	case []interface{}:
		// (_ bvN W)
		if len(v) == 3 {
			if s, ok := v[0].(string); ok && s == "_" {
				if n, ok := v[1].(string); ok && strings.HasPrefix(n, "bv") {
					return strconv.ParseUint(n[2:], 10, 64)
				}
			}
		}
	}
	return 0, fmt.Errorf("unparsed value %v", e)
}

func tokenize(s string) []string {
	var toks []string
	i := 0
	for i < len(s) {
		c := s[i]
		switch {
		case c == '(' || c == ')':
			toks = append(toks, string(c))
			i++
		case c == ' ' || c == '\n' || c == '\t' || c == '\r':
			i++
		case c == '|':
			j := i + 1
			for j < len(s) && s[j] != '|' {
				j++
			}
			toks = append(toks, s[i:j+1])
			i = j + 1
		default:
			j := i
			for j < len(s) && !strings.ContainsRune("() \n\t\r", rune(s[j])) {
				j++
			}
			toks = append(toks, s[i:j])
			i = j
		}
	}
	return toks
}
