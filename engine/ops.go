package main

import (
	"fmt"
	"math"
	"go/constant"
	"go/token"
	"go/types"

	"golang.org/x/tools/go/ssa"
)

func constantString(c *ssa.Const) string {
	if c.Value.Kind() == constant.String {
		return constant.StringVal(c.Value)
	}
	return string(rune(c.Int64()))
}

func constantBool(c *ssa.Const) bool { return constant.BoolVal(c.Value) }

func (x *Exec) unop(instr *ssa.UnOp, v value) value {
	switch instr.Op {
	case token.ARROW:
		et := instr.X.Type().Underlying().(*types.Chan).Elem()
		rv, ok := x.chanRecv(v, func() value { return x.zero(et) })
		if instr.CommaOk {
			return tuple{rv, x.tb.Bool(ok)}
		}
		return rv
	case token.SUB:
		t := v.(*Term)
		if t.sort.K == KFP {
			return x.tb.fun(OFNeg, t)
		}
		return x.tb.Neg(t)
	case token.MUL:
		if sp, isSym := v.(symPtr); isSym {
			return x.selectValue(sp.elems, sp.idx)
		}
		p, ok := v.(*value)
		if !ok {
			panic(unsupported{fmt.Sprintf("deref of %T", v)})
		}
		return x.load(p)
	case token.NOT:
		return x.tb.Not(v.(*Term))
	case token.XOR:
		return x.tb.BNot(v.(*Term))
	}
	panic(fmt.Sprintf("invalid unary op %s", instr.Op))
}

func (x *Exec) shiftCount(y *Term, w int) *Term {
	if y.sort.W == w {
		return y
	}
	if y.sort.W < w {
		return x.tb.Zext(y, w)
	}
	// wider count: saturate
	big := x.tb.Ule(x.tb.Const(y.sort.W, uint64(w)), y)
	return x.tb.Ite(big, x.tb.Const(w, uint64(w)), x.tb.Extract(y, w-1, 0))
}

func (x *Exec) binop(op token.Token, t types.Type, xv, yv value) value {
	tb := x.tb
	switch op {
	case token.EQL:
		return x.equals(t, xv, yv)
	case token.NEQ:
		return tb.Not(x.equals(t, xv, yv))
	}
	// strings
	if xs, ok := xv.(strVal); ok {
		ys := yv.(strVal)
		switch op {
		case token.ADD:
			if xs.b == nil && ys.b == nil {
				return strVal{s: xs.s + ys.s}
			}
			b := append(append([]*Term{}, x.bytesOf(xs)...), x.bytesOf(ys)...)
			return x.mkStr(b)
		case token.LSS:
			return x.strLess(xs, ys)
		case token.GTR:
			return x.strLess(ys, xs)
		case token.LEQ:
			return tb.Not(x.strLess(ys, xs))
		case token.GEQ:
			return tb.Not(x.strLess(xs, ys))
		}
		panic("bad string binop " + op.String())
	}
	a, ok1 := xv.(*Term)
	b, ok2 := yv.(*Term)
	if !ok1 || !ok2 {
		panic(unsupported{fmt.Sprintf("binop %s on %T,%T", op, xv, yv)})
	}
	if a.sort.K == KFP {
		switch op {
		case token.ADD:
			return tb.fbin(OFAdd, a, b)
		case token.SUB:
			return tb.fbin(OFSub, a, b)
		case token.MUL:
			return tb.fbin(OFMul, a, b)
		case token.QUO:
			return tb.fbin(OFDiv, a, b)
		case token.LSS:
			return tb.fcmp(OFLt, a, b)
		case token.LEQ:
			return tb.fcmp(OFLe, a, b)
		case token.GTR:
			return tb.fcmp(OFLt, b, a)
		case token.GEQ:
			return tb.fcmp(OFLe, b, a)
		}
		panic("bad float binop " + op.String())
	}
	if a.sort.K == KBool {
		switch op {
		case token.AND, token.LAND:
			return tb.And(a, b)
		case token.OR, token.LOR:
			return tb.Or(a, b)
		}
		panic("bad bool binop " + op.String())
	}
	signed := isSigned(t)
	switch op {
	case token.ADD:
		return tb.bin(OAdd, a, b)
	case token.SUB:
		return tb.bin(OSub, a, b)
	case token.MUL:
		return tb.bin(OMul, a, b)
	case token.QUO, token.REM:
		z := tb.Eq(b, tb.Const(b.sort.W, 0))
		if x.branch(z) {
			x.rtPanic("integer divide by zero")
		}
		if op == token.QUO {
			if signed {
				return tb.bin(OSDiv, a, b)
			}
			return tb.bin(OUDiv, a, b)
		}
		if signed {
			return tb.bin(OSRem, a, b)
		}
		return tb.bin(OURem, a, b)
	case token.AND:
		return tb.bin(OBAnd, a, b)
	case token.OR:
		return tb.bin(OBOr, a, b)
	case token.XOR:
		return tb.bin(OBXor, a, b)
	case token.AND_NOT:
		return tb.bin(OBAnd, a, tb.BNot(b))
	case token.SHL:
		return tb.bin(OShl, a, x.shiftCount(b, a.sort.W))
	case token.SHR:
		if signed {
			return tb.bin(OAShr, a, x.shiftCount(b, a.sort.W))
		}
		return tb.bin(OLShr, a, x.shiftCount(b, a.sort.W))
	case token.LSS:
		if signed {
			return tb.Slt(a, b)
		}
		return tb.Ult(a, b)
	case token.LEQ:
		if signed {
			return tb.Sle(a, b)
		}
		return tb.Ule(a, b)
	case token.GTR:
		if signed {
			return tb.Slt(b, a)
		}
		return tb.Ult(b, a)
	case token.GEQ:
		if signed {
			return tb.Sle(b, a)
		}
		return tb.Ule(b, a)
	}
	panic(fmt.Sprintf("invalid binary op: %s", op))
}

func (x *Exec) strEq(a, b strVal) *Term {
	if a.Len() != b.Len() {
		return x.tb.False()
	}
	if a.b == nil && b.b == nil {
		return x.tb.Bool(a.s == b.s)
	}
	ab, bb := x.bytesOf(a), x.bytesOf(b)
	r := x.tb.True()
	for i := range ab {
		r = x.tb.And(r, x.tb.Eq(ab[i], bb[i]))
		if r.op == OConst && r.u == 0 {
			return r
		}
	}
	return r
}

func (x *Exec) strLess(a, b strVal) *Term {
	if a.b == nil && b.b == nil {
		return x.tb.Bool(a.s < b.s)
	}
	ab, bb := x.bytesOf(a), x.bytesOf(b)
	n := len(ab)
	if len(bb) < n {
		n = len(bb)
	}
	// from the end: less_i = a[i]<b[i] or (a[i]==b[i] and less_{i+1}); base: len(a)<len(b)
	r := x.tb.Bool(len(ab) < len(bb))
	for i := n - 1; i >= 0; i-- {
		r = x.tb.Or(x.tb.Ult(ab[i], bb[i]), x.tb.And(x.tb.Eq(ab[i], bb[i]), r))
	}
	return r
}

func isInterface(t types.Type) bool {
	_, ok := t.Underlying().(*types.Interface)
	return ok
}

// equals returns the Bool term for x == y at static type t.
func (x *Exec) equals(t types.Type, xv, yv value) *Term {
	tb := x.tb
	switch a := xv.(type) {
	case *Term:
		b, ok := yv.(*Term)
		if !ok {
			panic(unsupported{fmt.Sprintf("equals %T %T", xv, yv)})
		}
		if a.sort.K == KFP {
			return tb.fcmp(OFEq, a, b)
		}
		return tb.Eq(a, b)
	case strVal:
		return x.strEq(a, yv.(strVal))
	case *value:
		b, _ := yv.(*value)
		return tb.Bool(a == b)
	case iface:
		b := yv.(iface)
		if a.t == nil || b.t == nil {
			return tb.Bool(a.t == nil && b.t == nil)
		}
		if !types.Identical(a.t, b.t) {
			return tb.False()
		}
		if !types.Comparable(a.t) {
			panic(targetPanic{v: iface{t: x.rtErrType, v: strVal{s: "comparing uncomparable type " + a.t.String()}}, msg: "runtime error: comparing uncomparable type " + a.t.String()})
		}
		return x.equals(a.t, a.v, b.v)
	case structure:
		b := yv.(structure)
		st := t.Underlying().(*types.Struct)
		r := tb.True()
		for i := range a {
			if st.Field(i).Name() == "_" {
				continue
			}
			r = tb.And(r, x.equals(st.Field(i).Type(), a[i], b[i]))
		}
		return r
	case array:
		b := yv.(array)
		et := t.Underlying().(*types.Array).Elem()
		r := tb.True()
		for i := range a {
			r = tb.And(r, x.equals(et, a[i], b[i]))
		}
		return r
	case sliceVal:
		b := yv.(sliceVal)
		if a.a == nil || b.a == nil {
			return tb.Bool(a.a == nil && b.a == nil)
		}
		panic("slice comparison")
	case *mapVal:
		b, _ := yv.(*mapVal)
		return tb.Bool(a == b)
	case *chanVal:
		b, _ := yv.(*chanVal)
		return tb.Bool(a == b)
	case *ssa.Function:
		switch b := yv.(type) {
		case *ssa.Function:
			return tb.Bool(a == b)
		case *closure:
			return tb.Bool(a == nil && b == nil)
		}
	case *closure:
		switch b := yv.(type) {
		case *ssa.Function:
			return tb.Bool(a == nil && b == nil)
		case *closure:
			return tb.Bool(a == b)
		}
	case poison:
		panic(unsupported{"equals on poison: " + a.why})
	}
	panic(unsupported{fmt.Sprintf("equals: %T vs %T", xv, yv)})
}

// branch decides a possibly symbolic condition (forking).
// concInt turns an integer term into a concrete int64 (forking over feasible values).
func (x *Exec) concInt(v value, what string) int64 {
	t, ok := v.(*Term)
	if !ok {
		panic(unsupported{fmt.Sprintf("concInt(%s) of %T", what, v)})
	}
	if t.op == OConst {
		return t.sval()
	}
	return x.concretize(t, what)
}

// boundedIndex checks 0 <= idx < n (panicking on the out-of-range fork) and concretises.
func (x *Exec) widenIdx(idx *Term, it types.Type) *Term {
	if idx.sort.W >= 64 {
		return idx
	}
	if isSigned(it) {
		return x.tb.Sext(idx, 64)
	}
	return x.tb.Zext(idx, 64)
}

func (x *Exec) boundedIndex(idx *Term, n int, it types.Type) int {
	idx = x.widenIdx(idx, it)
	it = types.Typ[types.Int]
	if idx.op == OConst {
		var i int64
		if isSigned(it) {
			i = idx.sval()
		} else {
			if idx.u > uint64(1<<62) {
				i = -1
			} else {
				i = int64(idx.u)
			}
		}
		if i < 0 || i >= int64(n) {
			x.rtPanic(fmt.Sprintf("index out of range [%d] with length %d", i, n))
		}
		return int(i)
	}
	inb := x.tb.Ult(idx, x.tb.Const(idx.sort.W, uint64(n)))
	if !x.branch(inb) {
		x.rtPanic(fmt.Sprintf("index out of range [symbolic] with length %d", n))
	}
	return int(x.concretize(idx, "index"))
}

// selectTerm builds the balanced if-then-else tree elems[idx] (idx already known in range).
func (x *Exec) selectTerm(elems []*Term, idx *Term) *Term {
	n := len(elems)
	if n == 1 {
		return elems[0]
	}
	lo, hi := 0, n-1
	if l, h, ok := x.tb.urange(idx); ok {
		if l > uint64(lo) && l < uint64(n) {
			lo = int(l)
		}
		if h < uint64(hi) {
			hi = int(h)
		}
	}
	if lo > hi {
		lo, hi = 0, n-1
	}
	// comparison tree over [lo,hi]; ranges with one repeated element collapse to that element
	var build func(lo, hi int) *Term
	build = func(lo, hi int) *Term {
		same := true
		for k := lo + 1; k <= hi; k++ {
			if elems[k] != elems[lo] {
				same = false
				break
			}
		}
		if same {
			return elems[lo]
		}
		mid := (lo + hi + 1) / 2
		l := build(lo, mid-1)
		h := build(mid, hi)
		if l == h {
			return l
		}
		return x.tb.Ite(x.tb.Ult(idx, x.tb.Const(idx.sort.W, uint64(mid))), l, h)
	}
	return build(lo, hi)
}

func (x *Exec) indexString(s strVal, idx *Term, it types.Type) value {
	idx = x.widenIdx(idx, it)
	it = types.Typ[types.Int]
	n := s.Len()
	if idx.op == OConst {
		i := x.boundedIndex(idx, n, it)
		if s.b != nil {
			return s.b[i]
		}
		return x.tb.bytes[s.s[i]]
	}
	inb := x.tb.Ult(idx, x.tb.Const(idx.sort.W, uint64(n)))
	if !x.branch(inb) {
		x.rtPanic(fmt.Sprintf("index out of range [symbolic] with length %d", n))
	}
	return x.selectTerm(x.bytesOf(s), idx)
}

func (x *Exec) indexValues(elems []value, idx *Term, it types.Type) value {
	idx = x.widenIdx(idx, it)
	it = types.Typ[types.Int]
	n := len(elems)
	if idx.op == OConst {
		return copyVal(elems[x.boundedIndex(idx, n, it)])
	}
	inb := x.tb.Ult(idx, x.tb.Const(idx.sort.W, uint64(n)))
	if !x.branch(inb) {
		x.rtPanic(fmt.Sprintf("index out of range [symbolic] with length %d", n))
	}
	ts := make([]*Term, n)
	allT := true
	for i, e := range elems {
		t, ok := e.(*Term)
		if !ok {
			allT = false
			break
		}
		ts[i] = t
	}
	if allT && n > 0 {
		return x.selectTerm(ts, idx)
	}
	return copyVal(elems[x.concretize(idx, "index")])
}

func (x *Exec) slice(instr *ssa.Slice, xv, lo, hi, max value) value {
	var length, capacity int
	var sl []value
	var str strVal
	isStr := false
	switch v := xv.(type) {
	case strVal:
		isStr = true
		str = v
		length = v.Len()
		capacity = length
	case sliceVal:
		sl = v.a
		length = len(v.a)
		capacity = cap(v.a)
	case *value:
		if v == nil {
			x.rtPanic("slice of nil array pointer")
		}
		a := (*v).(array)
		sl = []value(a)
		length = len(a)
		capacity = len(a)
	default:
		panic(unsupported{fmt.Sprintf("slice of %T", xv)})
	}
	l := 0
	if lo != nil {
		l = int(x.concSliceBound(lo, capacity, "slice lo"))
	}
	h := length
	if hi != nil {
		h = int(x.concSliceBound(hi, capacity, "slice hi"))
	}
	m := capacity
	if max != nil {
		m = int(x.concSliceBound(max, capacity, "slice max"))
	}
	if isStr {
		if l < 0 || l > h || h > length {
			x.rtPanic(fmt.Sprintf("slice bounds out of range [%d:%d] with length %d", l, h, length))
		}
		if str.b != nil {
			return x.mkStr(str.b[l:h])
		}
		return strVal{s: str.s[l:h]}
	}
	if l < 0 || l > h || h > m || m > capacity {
		x.rtPanic(fmt.Sprintf("slice bounds out of range [%d:%d:%d] with capacity %d", l, h, m, capacity))
	}
	if sl == nil {
		return sliceVal{}
	}
	return sliceVal{a: sl[l:h:m]}
}

// concSliceBound concretises a slice bound; out-of-range values collapse to one representative.
func (x *Exec) concSliceBound(v value, capacity int, what string) int64 {
	t := v.(*Term)
	if t.op == OConst {
		return t.sval()
	}
	inb := x.tb.Ule(t, x.tb.Const(t.sort.W, uint64(capacity)))
	if !x.branch(inb) {
		return -1
	}
	return x.concretize(t, what)
}

func (x *Exec) keyEq(kt types.Type, a, b value) *Term {
	return x.equals(kt, a, b)
}

func (x *Exec) mapFind(m *mapVal, kt types.Type, key value) *mapEntry {
	if m == nil {
		return nil
	}
	x.noteReadObj(m)
	for _, e := range m.entries {
		c := x.keyEq(kt, e.k, key)
		if c.op == OConst {
			if c.u == 1 {
				return e
			}
			continue
		}
		if x.branch(c) {
			return e
		}
	}
	return nil
}

func (x *Exec) lookup(instr *ssa.Lookup, xv, idx value) value {
	switch xv := xv.(type) {
	case *mapVal:
		mt := instr.X.Type().Underlying().(*types.Map)
		e := x.mapFind(xv, mt.Key(), idx)
		var v value
		ok := e != nil
		if ok {
			v = copyVal(e.v)
		} else {
			v = x.zero(mt.Elem())
		}
		if instr.CommaOk {
			return tuple{v, x.tb.Bool(ok)}
		}
		return v
	case strVal:
		return x.indexString(xv, idx.(*Term), instr.Index.Type())
	}
	panic(unsupported{fmt.Sprintf("lookup in %T", xv)})
}

func (x *Exec) mapUpdate(m *mapVal, kt types.Type, key, v value) {
	if m == nil {
		x.rtPanic("assignment to entry in nil map")
	}
	e := x.mapFind(m, kt, key)
	x.noteWriteObj(m)
	if e != nil {
		e.v = copyVal(v)
		return
	}
	m.entries = append(m.entries, &mapEntry{k: key, v: copyVal(v)})
}

func (x *Exec) mapDelete(m *mapVal, kt types.Type, key value) {
	if m == nil {
		return
	}
	e := x.mapFind(m, kt, key)
	if e == nil {
		return
	}
	x.noteWriteObj(m)
	for i, f := range m.entries {
		if f == e {
			m.entries = append(append([]*mapEntry{}, m.entries[:i]...), m.entries[i+1:]...)
			return
		}
	}
}

type iter interface {
	next(x *Exec) tuple
}

type mapIter struct {
	snap []*mapEntry
	m    *mapVal
	i    int
}

func (it *mapIter) next(x *Exec) tuple {
	for it.i < len(it.snap) {
		e := it.snap[it.i]
		it.i++
		// skip entries deleted during iteration
		live := false
		for _, f := range it.m.entries {
			if f == e {
				live = true
				break
			}
		}
		if live {
			return tuple{x.tb.True(), e.k, copyVal(e.v)}
		}
	}
	return tuple{x.tb.False(), nil, nil}
}

type strIter struct {
	s strVal
	i int
}

func (it *strIter) next(x *Exec) tuple {
	if it.i >= it.s.Len() {
		return tuple{x.tb.False(), x.tb.Int(0), x.tb.Const(32, 0)}
	}
	pos := it.i
	r, size := x.decodeRune(it.s, pos)
	it.i += size
	return tuple{x.tb.True(), x.tb.Int(int64(pos)), r}
}

func (x *Exec) rangeIter(v value, t types.Type) iter {
	switch v := v.(type) {
	case *mapVal:
		if v == nil {
			return &mapIter{m: &mapVal{}}
		}
		x.noteReadObj(v)
		n := len(v.entries)
		snap := make([]*mapEntry, n)
		copy(snap, v.entries)
		if n > 1 && x.mapOrder != 0 {
			var r int
			if x.mapOrder == 2 {
				r = x.choose(n, "map-order")
			} else {
				// one rotation offset per path, shared by all maps (mode 2 = independent per range)
				// (choice 3: successive ranges start at successive offsets — two walks over one unchanged map
				// need not agree in Go)
				if x.mapRot < 0 {
					x.mapRot = x.choose(4, "map-rotation")
				}
				if x.mapRot == 3 {
					r = x.mapWalks % n
					x.mapWalks++
				} else {
					r = x.mapRot % n
				}
			}
			rot := make([]*mapEntry, 0, n)
			rot = append(rot, snap[r:]...)
			rot = append(rot, snap[:r]...)
			snap = rot
		}
		return &mapIter{snap: snap, m: v}
	case strVal:
		return &strIter{s: v}
	}
	panic(unsupported{fmt.Sprintf("range over %T", v)})
}

func (x *Exec) typeAssert(instr *ssa.TypeAssert, itf iface) value {
	var v value
	ok := false
	if idst, isI := instr.AssertedType.Underlying().(*types.Interface); isI {
		if itf.t != nil && types.Implements(itf.t, idst) {
			v = itf
			ok = true
		}
	} else if itf.t != nil && types.Identical(itf.t, instr.AssertedType) {
		v = itf.v
		ok = true
	}
	if !ok {
		if !instr.CommaOk {
			msg := fmt.Sprintf("interface conversion: interface is %v, not %v", itf.t, instr.AssertedType)
			if itf.t == nil {
				msg = fmt.Sprintf("interface conversion: interface is nil, not %v", instr.AssertedType)
			}
			panic(targetPanic{v: iface{t: x.rtErrType, v: strVal{s: msg}}, msg: "runtime error: " + msg})
		}
		v = x.zero(instr.AssertedType)
	}
	if instr.CommaOk {
		return tuple{v, x.tb.Bool(ok)}
	}
	return v
}

func (x *Exec) conv(tdst, tsrc types.Type, v value) value {
	ud := tdst.Underlying()
	us := tsrc.Underlying()
	switch ud := ud.(type) {
	case *types.Basic:
		if ud.Info()&types.IsString != 0 {
			switch sv := v.(type) {
			case strVal:
				return sv
			case sliceVal:
				// []byte or []rune
				el := us.(*types.Slice).Elem().Underlying().(*types.Basic)
				if el.Kind() == types.Uint8 {
					b := make([]*Term, len(sv.a))
					for i, e := range sv.a {
						x.noteRead(&sv.a[i])
						b[i] = e.(*Term)
					}
					return x.mkStr(b)
				}
				var out []*Term
				for _, e := range sv.a {
					out = append(out, x.encodeRune(e.(*Term))...)
				}
				return x.mkStr(out)
			case *Term:
				// integer -> string
				r := sv
				if r.sort.W != 32 {
					if r.op == OConst {
						c := r.sval()
						if !isSigned(tsrc) {
							c = int64(r.u)
							if r.u > 0x10FFFF {
								c = 0xFFFD
							}
						}
						if c < 0 || c > 0x10FFFF {
							c = 0xFFFD
						}
						r = x.tb.Const(32, uint64(c))
					} else if r.sort.W < 32 {
						if isSigned(tsrc) {
							r = x.tb.Sext(r, 32)
						} else {
							r = x.tb.Zext(r, 32)
						}
					} else {
						// wider than a rune: out-of-range values become U+FFFD
						inr := x.tb.Ult(r, x.tb.Const(r.sort.W, 0x110000))
						r = x.tb.Ite(inr, x.tb.Extract(r, 31, 0), x.tb.Const(32, 0xFFFD))
					}
				}
				return x.mkStr(x.encodeRune(r))
			}
		}
		if ud.Kind() == types.UnsafePointer {
			// pointer -> unsafe.Pointer is kept as the same cell pointer, remembering the static type it came
			// from; only the round trip back to that very type is supported (atomic.Pointer[T], sync.Map).
			// A cast that reinterprets memory (e.g. *[]byte -> *string) stays unsupported.
			if pt, isPtr := us.(*types.Pointer); isPtr {
				if p, ok := v.(*value); ok {
					if p == nil {
						return (*value)(nil)
					}
					if x.unsafeT == nil {
						x.unsafeT = map[*value]types.Type{}
					}
					if old, seen := x.unsafeT[p]; seen && !types.Identical(old, pt) {
						panic(unsupported{"one cell converted to unsafe.Pointer from two pointer types"})
					}
					x.unsafeT[p] = pt
					return p
				}
			}
			if b, isB := us.(*types.Basic); isB && b.Kind() == types.UnsafePointer {
				return v
			}
			panic(unsupported{"conversion to unsafe.Pointer"})
		}
		t, ok := v.(*Term)
		if !ok {
			if p, isP := v.(poison); isP {
				return p
			}
			panic(unsupported{fmt.Sprintf("conv %v -> %v of %T", tsrc, tdst, v)})
		}
		ds, ok := basicSort(ud)
		if !ok {
			panic(unsupported{fmt.Sprintf("conv to %v", tdst)})
		}
		switch {
		case t.sort.K == KBV && ds.K == KBV:
			if ds.W <= t.sort.W {
				return x.tb.Extract(t, ds.W-1, 0)
			}
			if isSigned(tsrc) {
				return x.tb.Sext(t, ds.W)
			}
			return x.tb.Zext(t, ds.W)
		case t.sort.K == KBV && ds.K == KFP:
			return x.tb.FFromInt(t, isSigned(tsrc), ds)
		case t.sort.K == KFP && ds.K == KBV:
			return x.floatToInt(t, isSigned(tdst), ds.W)
		case t.sort.K == KFP && ds.K == KFP:
			return x.tb.FCvt(t, ds)
		case t.sort.K == KBool && ds.K == KBool:
			return t
		}
	case *types.Slice:
		sv, ok := v.(strVal)
		if ok {
			el := ud.Elem().Underlying().(*types.Basic)
			if el.Kind() == types.Uint8 {
				b := x.bytesOf(sv)
				out := make([]value, len(b))
				for i := range b {
					out[i] = b[i]
				}
				return sliceVal{a: out}
			}
			// []rune
			var out []value
			for i := 0; i < sv.Len(); {
				r, size := x.decodeRune(sv, i)
				out = append(out, r)
				i += size
			}
			if out == nil {
				out = []value{}
			}
			return sliceVal{a: out}
		}
		if sl, ok := v.(sliceVal); ok {
			return sl
		}
	case *types.Pointer:
		if b, isB := us.(*types.Basic); isB && b.Kind() == types.UnsafePointer {
			p, ok := v.(*value)
			if !ok {
				panic(unsupported{"conversion from unsafe.Pointer"})
			}
			if p == nil {
				return x.zero(tdst)
			}
			if from, seen := x.unsafeT[p]; seen && types.Identical(from, ud) {
				return p
			}
			panic(unsupported{fmt.Sprintf("unsafe.Pointer reinterpreted as %s", tdst)})
		}
		return v
	case *types.Signature, *types.Struct, *types.Map, *types.Interface, *types.Array:
		return v
	}
	panic(unsupported{fmt.Sprintf("unsupported conversion: %s -> %s (%T)", tsrc, tdst, v)})
}

// encodeRune / decodeRune run the real unicode/utf8 code symbolically.
func (x *Exec) encodeRune(r *Term) []*Term {
	fn := x.P.prog.ImportedPackage("unicode/utf8").Func("AppendRune")
	res := x.callSSA(nil, token.NoPos, fn, []value{sliceVal{}, r}, nil).(sliceVal)
	out := make([]*Term, len(res.a))
	for i, e := range res.a {
		out[i] = e.(*Term)
	}
	return out
}

func (x *Exec) decodeRune(s strVal, pos int) (*Term, int) {
	if s.b == nil {
		// concrete fast path
		c := s.s[pos]
		if c < 0x80 {
			return x.tb.Const(32, uint64(c)), 1
		}
	} else if s.b[pos].op == OConst && s.b[pos].u < 0x80 {
		return x.tb.Const(32, s.b[pos].u), 1
	}
	fn := x.P.prog.ImportedPackage("unicode/utf8").Func("DecodeRuneInString")
	var sub strVal
	if s.b != nil {
		sub = x.mkStr(s.b[pos:])
	} else {
		sub = strVal{s: s.s[pos:]}
	}
	res := x.callSSA(nil, token.NoPos, fn, []value{sub}, nil).(tuple)
	size := x.concInt(res[1], "rune size")
	return res[0].(*Term), int(size)
}

func (x *Exec) callBuiltin(caller *frame, callpos token.Pos, fn *ssa.Builtin, args []value) value {
	switch fn.Name() {
	case "append":
		if len(args) == 1 {
			return args[0]
		}
		dst := args[0].(sliceVal)
		var add []value
		switch s := args[1].(type) {
		case strVal:
			for _, b := range x.bytesOf(s) {
				add = append(add, b)
			}
		case sliceVal:
			for i := range s.a {
				x.noteRead(&s.a[i])
			}
			add = s.a
		}
		if len(add) == 0 {
			return dst
		}
		eltSize := int64(8)
		if sig, ok := fn.Type().(*types.Signature); ok && sig.Params().Len() > 0 {
			if st, ok := sig.Params().At(0).Type().Underlying().(*types.Slice); ok {
				eltSize = x.P.sizes.Sizeof(st.Elem())
			}
		}
		return x.appendVals(dst, add, eltSize)

	case "copy":
		dst := args[0].(sliceVal)
		var src []value
		switch s := args[1].(type) {
		case strVal:
			for _, b := range x.bytesOf(s) {
				src = append(src, b)
			}
		case sliceVal:
			src = s.a
		}
		n := len(src)
		if len(dst.a) < n {
			n = len(dst.a)
		}
		tmp := make([]value, n)
		for i := 0; i < n; i++ {
			tmp[i] = copyVal(src[i])
		}
		for i := 0; i < n; i++ {
			x.noteWrite(&dst.a[i])
			dst.a[i] = tmp[i]
		}
		return x.tb.Int(int64(n))

	case "close":
		x.chanClose(args[0])
		return nil

	case "delete":
		m := args[0].(*mapVal)
		kt := fn.Type().(*types.Signature).Params().At(0).Type().Underlying().(*types.Map).Key()
		x.mapDelete(m, kt, args[1])
		return nil

	case "clear":
		switch v := args[0].(type) {
		case *mapVal:
			if v != nil {
				x.noteWriteObj(v)
				v.entries = nil
			}
		case sliceVal:
			et := fn.Type().(*types.Signature).Params().At(0).Type().Underlying().(*types.Slice).Elem()
			for i := range v.a {
				v.a[i] = x.zero(et)
			}
		}
		return nil

	case "print", "println":
		return nil

	case "len":
		switch v := args[0].(type) {
		case strVal:
			return x.tb.Int(int64(v.Len()))
		case array:
			return x.tb.Int(int64(len(v)))
		case *value:
			return x.tb.Int(int64(len((*v).(array))))
		case sliceVal:
			return x.tb.Int(int64(len(v.a)))
		case *mapVal:
			if v == nil {
				return x.tb.Int(0)
			}
			x.noteReadObj(v)
			return x.tb.Int(int64(len(v.entries)))
		case *chanVal:
			if v == nil {
				return x.tb.Int(0)
			}
			return x.tb.Int(int64(len(v.buf)))
		}
		panic(unsupported{fmt.Sprintf("len of %T", args[0])})

	case "cap":
		switch v := args[0].(type) {
		case array:
			return x.tb.Int(int64(len(v)))
		case *value:
			return x.tb.Int(int64(len((*v).(array))))
		case sliceVal:
			return x.tb.Int(int64(cap(v.a)))
		case *chanVal:
			if v == nil {
				return x.tb.Int(0)
			}
			return x.tb.Int(int64(v.cap))
		}
		panic(unsupported{fmt.Sprintf("cap of %T", args[0])})

	case "min", "max":
		r := args[0].(*Term)
		signed := isSigned(fn.Type().(*types.Signature).Params().At(0).Type())
		for _, a := range args[1:] {
			t := a.(*Term)
			var c *Term
			if t.sort.K == KFP {
				c = x.tb.fcmp(OFLt, t, r)
			} else if signed {
				c = x.tb.Slt(t, r)
			} else {
				c = x.tb.Ult(t, r)
			}
			if fn.Name() == "max" {
				c = x.tb.Not(c)
			}
			r = x.tb.Ite(c, t, r)
		}
		return r

	case "panic":
		panic(targetPanic{v: args[0], msg: x.panicText(args[0])})

	case "recover":
		return x.doRecover(caller)

	case "ssa:wrapnilchk":
		recv := args[0]
		if p, ok := recv.(*value); ok && p == nil {
			x.rtPanic("value method called using nil pointer")
		}
		return recv

	case "ssa:deferstack":
		return &caller.defers
	}
	panic(unsupported{"builtin " + fn.Name()})
}

// appendVals implements append with the exact capacity growth of the Go runtime
// that compiled this engine (same toolchain as the test suite), by replaying the
// growth on a native slice with elements of the same size.
func (x *Exec) appendVals(dst sliceVal, add []value, eltSize int64) value {
	oldLen, oldCap := len(dst.a), cap(dst.a)
	need := oldLen + len(add)
	if need <= oldCap && dst.a != nil {
		out := dst.a[:need]
		// memmove semantics: copy via temp in case of overlap
		tmp := make([]value, len(add))
		for i := range add {
			tmp[i] = copyVal(add[i])
		}
		for i := range tmp {
			x.noteWrite(&out[oldLen+i])
			out[oldLen+i] = tmp[i]
		}
		return sliceVal{a: out}
	}
	newCap := nativeGrowCap(oldLen, oldCap, len(add), eltSize)
	out := make([]value, need, newCap)
	for i := 0; i < oldLen; i++ {
		x.noteRead(&dst.a[i])
		out[i] = dst.a[i]
	}
	for i := range add {
		out[oldLen+i] = copyVal(add[i])
	}
	return sliceVal{a: out}
}

type e1 struct{ _ [1]byte }
type e2 struct{ _ [2]byte }
type e4 struct{ _ [4]byte }
type e8 struct{ _ [8]byte }
type e16 struct{ _ [16]byte }
type e24 struct{ _ [24]byte }
type e32 struct{ _ [32]byte }

func growT[T any](oldLen, oldCap, add int) int {
	s := make([]T, oldLen, oldCap)
	s = append(s, make([]T, add)...)
	return cap(s)
}

func nativeGrowCap(oldLen, oldCap, add int, eltSize int64) int {
	switch {
	case eltSize <= 1:
		return growT[e1](oldLen, oldCap, add)
	case eltSize == 2:
		return growT[e2](oldLen, oldCap, add)
	case eltSize <= 4:
		return growT[e4](oldLen, oldCap, add)
	case eltSize <= 8:
		return growT[e8](oldLen, oldCap, add)
	case eltSize <= 16:
		return growT[e16](oldLen, oldCap, add)
	case eltSize <= 24:
		return growT[e24](oldLen, oldCap, add)
	default:
		return growT[e32](oldLen, oldCap, add)
	}
}

// floatToInt models the amd64 behaviour of Go's float -> integer conversion, including the
// "integer indefinite" result for NaN and out-of-range operands (the language leaves those
// implementation-defined; the tests and replays run on this platform).
func (x *Exec) floatToInt(f *Term, signed bool, w int) *Term {
	tb := x.tb
	if f.op == OConst {
		return tb.FToInt(f, signed, w)
	}
	f64 := tb.FCvt(f, SF64)
	cvt := func(width int) *Term {
		// CVTTSD2SQ / CVTTSD2SL
		lim := math.Ldexp(1, width-1)
		inr := tb.And(tb.fcmp(OFLe, tb.F64(-lim), f64), tb.fcmp(OFLt, f64, tb.F64(lim)))
		return tb.Ite(inr, tb.FToInt(f64, true, width), tb.Const(width, uint64(1)<<uint(width-1)))
	}
	if signed {
		switch w {
		case 64:
			return cvt(64)
		case 32:
			return cvt(32)
		default:
			return tb.Extract(cvt(32), w-1, 0)
		}
	}
	switch w {
	case 64:
		two63 := tb.F64(math.Ldexp(1, 63))
		small := tb.fcmp(OFLt, f64, two63)
		hi := tb.bin(OBXor, x.floatToInt(tb.fbin(OFSub, f64, two63), true, 64), tb.Const(64, 1<<63))
		return tb.Ite(small, cvt(64), hi)
	default:
		return tb.Extract(cvt(64), w-1, 0)
	}
}
