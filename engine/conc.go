package main

// Concurrency model (C15, C19): goroutines, sync stubs, happens-before race detection.
//
// Default mode ("eager"): a `go` statement runs the new goroutine to completion at the spawn
// point — one legal schedule. Full schedule exploration is in sched.go (enabled by the harness
// through verifSchedAll).

import (
	"fmt"
	"go/token"

	"golang.org/x/tools/go/ssa"
)

type hbState struct{}

type syncObj struct {
	pool    []value // sync.Pool free list
	counter int64 // WaitGroup counter
	locked  bool  // Mutex
	owner   int
}

func (x *Exec) syncOf(p *value) *syncObj {
	if x.syncs == nil {
		x.syncs = map[*value]*syncObj{}
	}
	s := x.syncs[p]
	if s == nil {
		s = &syncObj{}
		x.syncs[p] = s
	}
	return s
}

func (x *Exec) noteRead(addr *value) {
	if x.sched != nil {
		x.sched.access(x, addr, nil, false)
	}
}
func (x *Exec) noteWrite(addr *value) {
	if x.wtrack != nil {
		x.wtrack[addr] = true
	}
	if x.sched != nil {
		x.sched.access(x, addr, nil, true)
	}
}
func (x *Exec) noteReadObj(m *mapVal) {
	if x.sched != nil {
		x.sched.access(x, nil, m, false)
	}
}
func (x *Exec) noteWriteObj(m *mapVal) {
	if x.wtrackM != nil {
		x.wtrackM[m] = true
	}
	if x.sched != nil {
		x.sched.access(x, nil, m, true)
	}
}

func (x *Exec) spawn(fr *frame, instr *ssa.Go, fn value, args []value) {
	if x.sched != nil {
		x.sched.spawn(x, fr, instr, fn, args)
		return
	}
	// eager: run to completion now
	x.call(fr, instr.Pos(), fn, args)
}

func registerSyncStubs(reg func(string, intrinsic)) {
	// sync/atomic on integers: a read-modify-write that is also a synchronising access
	for _, suf := range []string{"Int32", "Int64", "Uint32", "Uint64", "Uintptr"} {
		suf := suf
		reg("sync/atomic.Add"+suf, func(x *Exec, fr *frame, args []value) value {
			p := args[0].(*value)
			if x.sched != nil {
				x.sched.syncPoint(x, p, "atomic.Add")
				x.sched.acquire(x, p)
			}
			nv := x.tb.Add((*p).(*Term), args[1].(*Term))
			*p = nv
			if x.sched != nil {
				x.sched.release(x, p)
			}
			return nv
		})
		reg("sync/atomic.Load"+suf, func(x *Exec, fr *frame, args []value) value {
			p := args[0].(*value)
			if x.sched != nil {
				x.sched.syncPoint(x, p, "atomic.Load")
				x.sched.acquire(x, p)
			}
			return *p
		})
		reg("sync/atomic.Store"+suf, func(x *Exec, fr *frame, args []value) value {
			p := args[0].(*value)
			if x.sched != nil {
				x.sched.syncPoint(x, p, "atomic.Store")
			}
			*p = args[1]
			if x.sched != nil {
				x.sched.release(x, p)
			}
			return nil
		})
		reg("sync/atomic.Swap"+suf, func(x *Exec, fr *frame, args []value) value {
			p := args[0].(*value)
			if x.sched != nil {
				x.sched.syncPoint(x, p, "atomic.Swap")
				x.sched.acquire(x, p)
			}
			old := *p
			*p = args[1]
			if x.sched != nil {
				x.sched.release(x, p)
			}
			return old
		})
		reg("sync/atomic.CompareAndSwap"+suf, func(x *Exec, fr *frame, args []value) value {
			p := args[0].(*value)
			if x.sched != nil {
				x.sched.syncPoint(x, p, "atomic.CAS")
				x.sched.acquire(x, p)
			}
			if x.branch(x.tb.Eq((*p).(*Term), args[1].(*Term))) {
				*p = args[2]
				if x.sched != nil {
					x.sched.release(x, p)
				}
				return x.tb.True()
			}
			return x.tb.False()
		})
	}
	// sync/atomic on unsafe.Pointer cells (atomic.Pointer[T], sync.Map): pointers compare by identity
	reg("sync/atomic.LoadPointer", func(x *Exec, fr *frame, args []value) value {
		p := args[0].(*value)
		if x.sched != nil {
			x.sched.syncPoint(x, p, "atomic.Load")
			x.sched.acquire(x, p)
		}
		return *p
	})
	reg("sync/atomic.StorePointer", func(x *Exec, fr *frame, args []value) value {
		p := args[0].(*value)
		if x.sched != nil {
			x.sched.syncPoint(x, p, "atomic.Store")
		}
		*p = args[1]
		if x.sched != nil {
			x.sched.release(x, p)
		}
		return nil
	})
	reg("sync/atomic.SwapPointer", func(x *Exec, fr *frame, args []value) value {
		p := args[0].(*value)
		if x.sched != nil {
			x.sched.syncPoint(x, p, "atomic.Swap")
			x.sched.acquire(x, p)
		}
		old := *p
		*p = args[1]
		if x.sched != nil {
			x.sched.release(x, p)
		}
		return old
	})
	reg("sync/atomic.CompareAndSwapPointer", func(x *Exec, fr *frame, args []value) value {
		p := args[0].(*value)
		if x.sched != nil {
			x.sched.syncPoint(x, p, "atomic.CAS")
			x.sched.acquire(x, p)
		}
		cur, _ := (*p).(*value)
		old, _ := args[1].(*value)
		if cur == old {
			*p = args[2]
			if x.sched != nil {
				x.sched.release(x, p)
			}
			return x.tb.True()
		}
		return x.tb.False()
	})
	// sync.Pool as a per-pool LIFO free list (one legal behaviour of the real pool; the real one may also
	// drop items at any time — code that is only correct when items are dropped is not modelled).
	// A Get/Put is a synchronising access to the pool.
	reg("(*sync.Pool).Put", func(x *Exec, fr *frame, args []value) value {
		p := args[0].(*value)
		s := x.syncOf(p)
		if x.sched != nil {
			x.sched.syncPoint(x, p, "pool.Put")
		}
		if iv, ok := args[1].(iface); ok && iv.t == nil {
			return nil
		}
		s.pool = append(s.pool, args[1])
		return nil
	})
	reg("(*sync.Pool).Get", func(x *Exec, fr *frame, args []value) value {
		p := args[0].(*value)
		s := x.syncOf(p)
		if x.sched != nil {
			x.sched.syncPoint(x, p, "pool.Get")
		}
		if n := len(s.pool); n > 0 {
			v := s.pool[n-1]
			s.pool = s.pool[:n-1]
			return v
		}
		st, ok := (*p).(structure)
		if !ok {
			panic(unsupported{"sync.Pool of unexpected shape"})
		}
		newFn := st[len(st)-1] // the New field is the last field of sync.Pool
		switch f := newFn.(type) {
		case nil:
			return iface{}
		case *closure:
			if f == nil {
				return iface{}
			}
		case *ssa.Function:
			if f == nil {
				return iface{}
			}
		}
		return x.call(fr, token.NoPos, newFn, nil)
	})
	reg("(*sync.WaitGroup).Add", func(x *Exec, fr *frame, args []value) value {
		s := x.syncOf(args[0].(*value))
		d := x.concInt(args[1], "WaitGroup.Add delta")
		if x.sched != nil {
			x.sched.syncPoint(x, args[0].(*value), "wg.Add")
		}
		s.counter += d
		if s.counter < 0 {
			panic(targetPanic{v: iface{t: x.rtErrType, v: strVal{s: "sync: negative WaitGroup counter"}}, msg: "sync: negative WaitGroup counter"})
		}
		if x.sched != nil && d < 0 {
			x.sched.release(x, args[0].(*value))
		}
		return nil
	})
	reg("(*sync.WaitGroup).Done", func(x *Exec, fr *frame, args []value) value {
		s := x.syncOf(args[0].(*value))
		if x.sched != nil {
			x.sched.syncPoint(x, args[0].(*value), "wg.Done")
		}
		s.counter--
		if s.counter < 0 {
			panic(targetPanic{v: iface{t: x.rtErrType, v: strVal{s: "sync: negative WaitGroup counter"}}, msg: "sync: negative WaitGroup counter"})
		}
		if x.sched != nil {
			x.sched.release(x, args[0].(*value))
		}
		return nil
	})
	reg("(*sync.WaitGroup).Wait", func(x *Exec, fr *frame, args []value) value {
		p := args[0].(*value)
		s := x.syncOf(p)
		if x.sched != nil {
			x.sched.waitUntil(x, func() bool { return s.counter == 0 }, "wg.Wait")
			x.sched.acquire(x, p)
			return nil
		}
		if s.counter != 0 {
			panic(unsupported{fmt.Sprintf("WaitGroup.Wait with counter %d in eager goroutine mode (deadlock)", s.counter)})
		}
		return nil
	})
	reg("(*sync.Mutex).Lock", func(x *Exec, fr *frame, args []value) value {
		p := args[0].(*value)
		s := x.syncOf(p)
		if x.sched != nil {
			x.sched.waitUntil(x, func() bool { return !s.locked }, "mu.Lock")
			s.locked = true
			x.sched.acquire(x, p)
			return nil
		}
		if s.locked {
			panic(unsupported{"Mutex.Lock on a locked mutex in eager goroutine mode (deadlock)"})
		}
		s.locked = true
		return nil
	})
	reg("(*sync.Mutex).Unlock", func(x *Exec, fr *frame, args []value) value {
		p := args[0].(*value)
		s := x.syncOf(p)
		if !s.locked {
			panic(targetPanic{v: iface{t: x.rtErrType, v: strVal{s: "sync: unlock of unlocked mutex"}}, msg: "sync: unlock of unlocked mutex"})
		}
		if x.sched != nil {
			x.sched.syncPoint(x, p, "mu.Unlock")
			x.sched.release(x, p)
		}
		s.locked = false
		return nil
	})
}

// reachableCells collects every heap cell reachable from v (through pointers, slices, structs,
// arrays, interfaces, maps and closures).
func reachableCells(v value, cells map[*value]bool, maps map[*mapVal]bool, depth int) {
	if depth > 64 {
		return
	}
	switch t := v.(type) {
	case *value:
		if t == nil || cells[t] {
			return
		}
		cells[t] = true
		reachableCells(*t, cells, maps, depth+1)
	case sliceVal:
		full := t.a[:cap(t.a)]
		for i := range full {
			if cells[&full[i]] {
				return
			}
			cells[&full[i]] = true
			reachableCells(full[i], cells, maps, depth+1)
		}
	case structure:
		for i := range t {
			cells[&t[i]] = true
			reachableCells(t[i], cells, maps, depth+1)
		}
	case array:
		for i := range t {
			cells[&t[i]] = true
			reachableCells(t[i], cells, maps, depth+1)
		}
	case iface:
		reachableCells(t.v, cells, maps, depth+1)
	case *mapVal:
		if t == nil || maps[t] {
			return
		}
		maps[t] = true
		for _, e := range t.entries {
			reachableCells(e.v, cells, maps, depth+1)
		}
	case *closure:
		if t != nil {
			for _, e := range t.Env {
				reachableCells(e, cells, maps, depth+1)
			}
		}
	}
}

func registerConcIntrinsics(reg func(string, intrinsic)) {
	reg(hp+"verifSchedAll", func(x *Exec, fr *frame, args []value) value {
		b := int(x.concInt(args[0], "preemption bound"))
		if b < 0 {
			// one fixed schedule (policy -b) instead of every schedule: long lists, where the number of
			// interleavings is out of reach; the happens-before race detector still sees every access
			x.sched = newScheduler(x, 0)
			x.sched.policy = -b
			return nil
		}
		x.sched = newScheduler(x, b)
		return nil
	})
	reg(hp+"verifYield", func(x *Exec, fr *frame, args []value) value {
		if x.sched != nil {
			x.sched.yield("callback")
		}
		return nil
	})
	reg(hp+"verifRaces", func(x *Exec, fr *frame, args []value) value {
		return x.tb.Int(int64(len(x.raceMsgs)))
	})
	reg(hp+"verifTrackWrites", func(x *Exec, fr *frame, args []value) value {
		x.wtrack = map[*value]bool{}
		x.wtrackM = map[*mapVal]bool{}
		return nil
	})
	// verifWroteInto(root): did any store since verifTrackWrites hit memory reachable from root?
	reg(hp+"verifWroteInto", func(x *Exec, fr *frame, args []value) value {
		cells := map[*value]bool{}
		maps := map[*mapVal]bool{}
		reachableCells(args[0], cells, maps, 0)
		hit := false
		for c := range x.wtrack {
			if cells[c] {
				hit = true
				break
			}
		}
		for m := range x.wtrackM {
			if maps[m] {
				hit = true
			}
		}
		return x.tb.Bool(hit)
	})
}

var _ = token.NoPos
