package main

// Concurrency model (C15): cooperative scheduler over coroutines, sync stubs,
// vector-clock happens-before race detection, write tracking.
// (first version: sequential placeholders; see sched.go for the scheduler)

import (
	"golang.org/x/tools/go/ssa"
)

type hbState struct{}

type scheduler struct {
	inCritical bool
}

func (s *scheduler) killAll()       {}
func (s *scheduler) finish(x *Exec) {}

func (x *Exec) noteRead(addr *value)   {}
func (x *Exec) noteWrite(addr *value)  {}
func (x *Exec) noteReadObj(m *mapVal)  {}
func (x *Exec) noteWriteObj(m *mapVal) {}

func (x *Exec) spawn(fr *frame, instr *ssa.Go, fn value, args []value) {
	panic(unsupported{"go statement (scheduler not enabled)"})
}

func registerSyncStubs(reg func(string, intrinsic)) {}
