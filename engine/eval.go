package main

// Concrete evaluation of terms under a model (variable assignment). Used to skip
// feasibility queries: the side of a branch that the current model takes is feasible.

import (
	"math"
)

type model struct {
	vals map[string]uint64
	memo map[*Term]evalRes
}

type evalRes struct {
	v  uint64
	ok bool
}

func fbitsTo(s Sort, f float64) uint64 {
	if s.W == 32 {
		return uint64(math.Float32bits(float32(f)))
	}
	return math.Float64bits(f)
}

func fbitsFrom(s Sort, u uint64) float64 {
	if s.W == 32 {
		return float64(math.Float32frombits(uint32(u)))
	}
	return math.Float64frombits(u)
}

func sx(u uint64, w int) int64 {
	if w >= 64 {
		return int64(u)
	}
	if u&(1<<uint(w-1)) != 0 {
		return int64(u | ^mask(w))
	}
	return int64(u)
}

func (m *model) eval(t *Term) (uint64, bool) {
	if t.op == OConst {
		return t.u, true
	}
	if r, ok := m.memo[t]; ok {
		return r.v, r.ok
	}
	v, ok := m.eval1(t)
	m.memo[t] = evalRes{v, ok}
	return v, ok
}

func (m *model) eval1(t *Term) (uint64, bool) {
	if t.sort.K == KBV && t.sort.W > 64 {
		return 0, false
	}
	switch t.op {
	case OVar:
		v, ok := m.vals[t.name]
		if !ok {
			// unconstrained variable: any value works only if the solver never saw it; be conservative
			return 0, false
		}
		return v, true
	case OUF:
		return 0, false
	}
	var a, b, c uint64
	var ok bool
	if t.a0 != nil {
		if t.a0.sort.K == KBV && t.a0.sort.W > 64 {
			return 0, false
		}
		if a, ok = m.eval(t.a0); !ok {
			return 0, false
		}
	}
	// short-circuit ite / and / or before evaluating other args
	switch t.op {
	case OIte:
		if a == 1 {
			return m.eval(t.a1)
		}
		return m.eval(t.a2)
	case OAnd:
		if a == 0 {
			return 0, true
		}
		return m.eval(t.a1)
	case OOr:
		if a == 1 {
			return 1, true
		}
		return m.eval(t.a1)
	}
	if t.a1 != nil {
		if b, ok = m.eval(t.a1); !ok {
			return 0, false
		}
	}
	if t.a2 != nil {
		if c, ok = m.eval(t.a2); !ok {
			return 0, false
		}
	}
	_ = c
	w := t.sort.W
	mk := mask(w)
	bo := func(x bool) (uint64, bool) {
		if x {
			return 1, true
		}
		return 0, true
	}
	switch t.op {
	case ONot:
		return a ^ 1, true
	case OEq:
		return bo(a == b)
	case OAdd:
		return (a + b) & mk, true
	case OSub:
		return (a - b) & mk, true
	case OMul:
		return (a * b) & mk, true
	case OUDiv:
		if b == 0 {
			return mk, true
		}
		return a / b, true
	case OURem:
		if b == 0 {
			return a, true
		}
		return a % b, true
	case OSDiv:
		sa, sb := sx(a, w), sx(b, w)
		if sb == 0 {
			if sa < 0 {
				return 1, true
			}
			return mk, true
		}
		if sb == -1 {
			return uint64(-sa) & mk, true
		}
		return uint64(sa/sb) & mk, true
	case OSRem:
		sa, sb := sx(a, w), sx(b, w)
		if sb == 0 {
			return a, true
		}
		if sb == -1 {
			return 0, true
		}
		return uint64(sa%sb) & mk, true
	case OBAnd:
		return a & b, true
	case OBOr:
		return a | b, true
	case OBXor:
		return a ^ b, true
	case OShl:
		if b >= uint64(w) {
			return 0, true
		}
		return (a << b) & mk, true
	case OLShr:
		if b >= uint64(w) {
			return 0, true
		}
		return a >> b, true
	case OAShr:
		s := b
		if s >= uint64(w) {
			s = uint64(w - 1)
		}
		return uint64(sx(a, w)>>s) & mk, true
	case ONeg:
		return (-a) & mk, true
	case OBNot:
		return (^a) & mk, true
	case OUlt:
		return bo(a < b)
	case OUle:
		return bo(a <= b)
	case OSlt:
		return bo(sx(a, t.a0.sort.W) < sx(b, t.a0.sort.W))
	case OSle:
		return bo(sx(a, t.a0.sort.W) <= sx(b, t.a0.sort.W))
	case OConcat:
		return (a<<uint(t.a1.sort.W) | b) & mk, true
	case OExtract:
		lo := t.u & 0xffff
		return (a >> lo) & mk, true
	case OZext:
		return a, true
	case OSext:
		return uint64(sx(a, t.a0.sort.W)) & mk, true
	}
	// floating point
	switch t.op {
	case OFFromBits:
		return a, true
	case OFToBits:
		return a, true
	case OFFromSBV:
		return fbitsTo(t.sort, float64(sx(a, t.a0.sort.W))), true
	case OFFromUBV:
		return fbitsTo(t.sort, float64(a)), true
	}
	fa := fbitsFrom(t.a0.sort, a)
	switch t.op {
	case OFNeg:
		return fbitsTo(t.sort, -fa), true
	case OFAbs:
		return fbitsTo(t.sort, math.Abs(fa)), true
	case OFIsNaN:
		return bo(math.IsNaN(fa))
	case OFIsInf:
		return bo(math.IsInf(fa, 0))
	case OFRoundRTZ:
		return fbitsTo(t.sort, math.Trunc(fa)), true
	case OFCvt:
		return fbitsTo(t.sort, fa), true
	case OFToSBV:
		lim := math.Ldexp(1, w-1)
		if !(fa >= -lim && fa < lim) {
			return 0, false // unspecified in SMT-LIB
		}
		return uint64(int64(fa)) & mk, true
	case OFToUBV:
		lim := math.Ldexp(1, w)
		if !(fa > -1 && fa < lim) {
			return 0, false
		}
		return uint64(fa) & mk, true
	}
	if t.a1 == nil {
		return 0, false
	}
	fb := fbitsFrom(t.a1.sort, b)
	if t.sort.K == KFP && t.sort.W == 32 {
		x, y := float32(fa), float32(fb)
		switch t.op {
		case OFAdd:
			return uint64(math.Float32bits(x + y)), true
		case OFSub:
			return uint64(math.Float32bits(x - y)), true
		case OFMul:
			return uint64(math.Float32bits(x * y)), true
		case OFDiv:
			return uint64(math.Float32bits(x / y)), true
		}
	}
	switch t.op {
	case OFAdd:
		return fbitsTo(t.sort, fa+fb), true
	case OFSub:
		return fbitsTo(t.sort, fa-fb), true
	case OFMul:
		return fbitsTo(t.sort, fa*fb), true
	case OFDiv:
		return fbitsTo(t.sort, fa/fb), true
	case OFLt:
		return bo(fa < fb)
	case OFLe:
		return bo(fa <= fb)
	case OFEq:
		return bo(fa == fb)
	}
	return 0, false
}
