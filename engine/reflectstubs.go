package main

// A small model of package reflect. Dynamic types are concrete in the executor (only scalar content is
// symbolic), so Kind/IsNil/Len/Index/... are answered from the executor's own value representation; the
// numeric accessors return the symbolic term. Anything outside this subset stays unsupported (the run is
// then INCONCLUSIVE, never a success).

import (
	"fmt"
	"regexp"
	"strings"
	"go/token"
	"go/types"
)

// reflVal stands for a reflect.Value: a value together with its static type at the point it was taken.
type reflVal struct {
	t types.Type // nil = the zero Value
	v value
}

// reflType stands for the *rtype behind a reflect.Type.
type reflType struct{ t types.Type }

func reflKind(t types.Type) uint64 {
	if t == nil {
		return 0
	}
	switch u := t.Underlying().(type) {
	case *types.Basic:
		switch u.Kind() {
		case types.Bool:
			return 1
		case types.Int:
			return 2
		case types.Int8:
			return 3
		case types.Int16:
			return 4
		case types.Int32:
			return 5
		case types.Int64:
			return 6
		case types.Uint:
			return 7
		case types.Uint8:
			return 8
		case types.Uint16:
			return 9
		case types.Uint32:
			return 10
		case types.Uint64:
			return 11
		case types.Uintptr:
			return 12
		case types.Float32:
			return 13
		case types.Float64:
			return 14
		case types.Complex64:
			return 15
		case types.Complex128:
			return 16
		case types.String:
			return 24
		case types.UnsafePointer:
			return 26
		}
	case *types.Array:
		return 17
	case *types.Chan:
		return 18
	case *types.Signature:
		return 19
	case *types.Interface:
		return 20
	case *types.Map:
		return 21
	case *types.Pointer:
		return 22
	case *types.Slice:
		return 23
	case *types.Struct:
		return 25
	}
	panic(unsupported{fmt.Sprintf("reflect: kind of %v", t)})
}

func registerReflectStubs(reg func(string, intrinsic)) {
	kindT := func(x *Exec, k uint64) *Term { return x.tb.Const(64, k) }
	rv := func(a value) reflVal {
		r, ok := a.(reflVal)
		if !ok {
			panic(unsupported{fmt.Sprintf("reflect.Value represented as %T", a)})
		}
		return r
	}
	typeIface := func(x *Exec, t types.Type) iface {
		if t == nil {
			return iface{}
		}
		rt := x.P.prog.ImportedPackage("reflect").Type("rtype").Type()
		return iface{t: types.NewPointer(rt), v: reflType{t}}
	}
	valuePanic := func(x *Exec, method string, r reflVal) {
		x.rtPanic(fmt.Sprintf("reflect: call of reflect.Value.%s on %v Value", method, r.t))
	}
	reg("reflect.ValueOf", func(x *Exec, fr *frame, args []value) value {
		iv := args[0].(iface)
		if iv.t == nil {
			return reflVal{}
		}
		return reflVal{t: iv.t, v: iv.v}
	})
	reg("reflect.TypeOf", func(x *Exec, fr *frame, args []value) value {
		return typeIface(x, args[0].(iface).t)
	})
	reg("(reflect.Value).Kind", func(x *Exec, fr *frame, args []value) value { return kindT(x, reflKind(rv(args[0]).t)) })
	reg("(reflect.Value).IsValid", func(x *Exec, fr *frame, args []value) value { return x.tb.Bool(rv(args[0]).t != nil) })
	reg("(reflect.Value).Type", func(x *Exec, fr *frame, args []value) value {
		r := rv(args[0])
		if r.t == nil {
			x.rtPanic("reflect: call of reflect.Value.Type on zero Value")
		}
		return typeIface(x, r.t)
	})
	reg("(reflect.Value).IsNil", func(x *Exec, fr *frame, args []value) value {
		r := rv(args[0])
		switch v := r.v.(type) {
		case sliceVal:
			return x.tb.Bool(v.a == nil)
		case *mapVal:
			return x.tb.Bool(v == nil)
		case *value:
			return x.tb.Bool(v == nil)
		case iface:
			return x.tb.Bool(v.t == nil)
		case *closure:
			return x.tb.Bool(v == nil)
		case nil:
			if r.t != nil {
				switch reflKind(r.t) {
				case 18, 19, 20, 21, 22, 23, 26:
					return x.tb.True()
				}
			}
		}
		if r.t != nil {
			switch reflKind(r.t) {
			case 18, 19, 26:
				panic(unsupported{"reflect: IsNil of a chan/func value"})
			}
		}
		valuePanic(x, "IsNil", r)
		return nil
	})
	reg("(reflect.Value).Int", func(x *Exec, fr *frame, args []value) value {
		r := rv(args[0])
		if k := reflKind(r.t); k < 2 || k > 6 {
			valuePanic(x, "Int", r)
		}
		t := r.v.(*Term)
		if t.sort.W < 64 {
			t = x.tb.Sext(t, 64)
		}
		return t
	})
	reg("(reflect.Value).Uint", func(x *Exec, fr *frame, args []value) value {
		r := rv(args[0])
		if k := reflKind(r.t); k < 7 || k > 12 {
			valuePanic(x, "Uint", r)
		}
		t := r.v.(*Term)
		if t.sort.W < 64 {
			t = x.tb.Zext(t, 64)
		}
		return t
	})
	reg("(reflect.Value).Float", func(x *Exec, fr *frame, args []value) value {
		r := rv(args[0])
		k := reflKind(r.t)
		if k != 13 && k != 14 {
			valuePanic(x, "Float", r)
		}
		t := r.v.(*Term)
		if k == 13 {
			t = x.tb.FCvt(t, SF64)
		}
		return t
	})
	reg("(reflect.Value).Bool", func(x *Exec, fr *frame, args []value) value {
		r := rv(args[0])
		if reflKind(r.t) != 1 {
			valuePanic(x, "Bool", r)
		}
		return r.v
	})
	reg("(reflect.Value).String", func(x *Exec, fr *frame, args []value) value {
		r := rv(args[0])
		if r.t == nil {
			return strVal{s: "<invalid Value>"}
		}
		if reflKind(r.t) != 24 {
			return strVal{s: "<" + r.t.String() + " Value>"}
		}
		return r.v
	})
	reg("(reflect.Value).Len", func(x *Exec, fr *frame, args []value) value {
		r := rv(args[0])
		switch v := r.v.(type) {
		case sliceVal:
			return x.tb.Int(int64(len(v.a)))
		case strVal:
			return x.tb.Int(int64(v.Len()))
		case *mapVal:
			if v == nil {
				return x.tb.Int(0)
			}
			return x.tb.Int(int64(len(v.entries)))
		case array:
			return x.tb.Int(int64(len(v)))
		}
		valuePanic(x, "Len", r)
		return nil
	})
	reg("(reflect.Value).Index", func(x *Exec, fr *frame, args []value) value {
		r := rv(args[0])
		i := int(x.concretize(args[1].(*Term), "reflect Index"))
		switch v := r.v.(type) {
		case sliceVal:
			if i < 0 || i >= len(v.a) {
				x.rtPanic("reflect: slice index out of range")
			}
			return reflVal{t: r.t.Underlying().(*types.Slice).Elem(), v: copyVal(v.a[i])}
		case array:
			if i < 0 || i >= len(v) {
				x.rtPanic("reflect: array index out of range")
			}
			return reflVal{t: r.t.Underlying().(*types.Array).Elem(), v: copyVal(v[i])}
		}
		valuePanic(x, "Index", r)
		return nil
	})
	reg("(reflect.Value).Elem", func(x *Exec, fr *frame, args []value) value {
		r := rv(args[0])
		switch v := r.v.(type) {
		case iface:
			if v.t == nil {
				return reflVal{}
			}
			return reflVal{t: v.t, v: v.v}
		case *value:
			if v == nil {
				return reflVal{}
			}
			return reflVal{t: r.t.Underlying().(*types.Pointer).Elem(), v: x.load(v)}
		}
		valuePanic(x, "Elem", r)
		return nil
	})
	reg("(reflect.Value).Interface", func(x *Exec, fr *frame, args []value) value {
		r := rv(args[0])
		if r.t == nil {
			x.rtPanic("reflect: call of reflect.Value.Interface on zero Value")
		}
		if _, isI := r.t.Underlying().(*types.Interface); isI {
			if iv, ok := r.v.(iface); ok {
				return iv
			}
		}
		return iface{t: r.t, v: r.v}
	})
	reg("(reflect.Value).CanInt", func(x *Exec, fr *frame, args []value) value {
		k := reflKind(rv(args[0]).t)
		return x.tb.Bool(k >= 2 && k <= 6)
	})
	reg("(reflect.Value).CanUint", func(x *Exec, fr *frame, args []value) value {
		k := reflKind(rv(args[0]).t)
		return x.tb.Bool(k >= 7 && k <= 12)
	})
	reg("(reflect.Value).CanFloat", func(x *Exec, fr *frame, args []value) value {
		k := reflKind(rv(args[0]).t)
		return x.tb.Bool(k == 13 || k == 14)
	})
	// reflect.Type methods (dynamic type *rtype)
	rt := func(a value) types.Type {
		t, ok := a.(reflType)
		if !ok {
			panic(unsupported{fmt.Sprintf("reflect.Type represented as %T", a)})
		}
		return t.t
	}
	reg("(*reflect.rtype).Kind", func(x *Exec, fr *frame, args []value) value { return kindT(x, reflKind(rt(args[0]))) })
	reg("(*reflect.rtype).String", func(x *Exec, fr *frame, args []value) value {
		// reflect spells the empty interface "interface {}"
		ts := types.TypeString(rt(args[0]), func(p *types.Package) string { return p.Name() })
		ts = strings.ReplaceAll(ts, "interface{}", "interface {}")
		ts = regexp.MustCompile(`\bany\b`).ReplaceAllString(ts, "interface {}")
		return strVal{s: ts}
	})
	reg("(*reflect.rtype).Name", func(x *Exec, fr *frame, args []value) value {
		switch t := rt(args[0]).(type) {
		case *types.Named:
			return strVal{s: t.Obj().Name()}
		case *types.Basic:
			return strVal{s: t.Name()}
		}
		return strVal{s: ""}
	})
	reg("(*reflect.rtype).Elem", func(x *Exec, fr *frame, args []value) value {
		switch t := rt(args[0]).Underlying().(type) {
		case *types.Slice:
			return typeIface(x, t.Elem())
		case *types.Array:
			return typeIface(x, t.Elem())
		case *types.Pointer:
			return typeIface(x, t.Elem())
		case *types.Map:
			return typeIface(x, t.Elem())
		case *types.Chan:
			return typeIface(x, t.Elem())
		}
		x.rtPanic("reflect: Elem of invalid type")
		return nil
	})
	reg("(*reflect.rtype).Key", func(x *Exec, fr *frame, args []value) value {
		if t, ok := rt(args[0]).Underlying().(*types.Map); ok {
			return typeIface(x, t.Key())
		}
		x.rtPanic("reflect: Key of non-map type")
		return nil
	})
	_ = token.NoPos
}
