package main

// Scheduler placeholder (full implementation follows with C15).

import "golang.org/x/tools/go/ssa"

type scheduler struct {
	inCritical bool
}

func (s *scheduler) killAll()                                                            {}
func (s *scheduler) finish(x *Exec)                                                      {}
func (s *scheduler) access(x *Exec, addr *value, m *mapVal, write bool)                  {}
func (s *scheduler) spawn(x *Exec, fr *frame, instr *ssa.Go, fn value, args []value)     {}
func (s *scheduler) syncPoint(x *Exec, p *value, what string)                            {}
func (s *scheduler) release(x *Exec, p *value)                                           {}
func (s *scheduler) acquire(x *Exec, p *value)                                           {}
func (s *scheduler) waitUntil(x *Exec, cond func() bool, what string)                    {}
