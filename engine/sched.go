package main

// Cooperative scheduler for the goroutines of the program under analysis (C15).
//
// Every target goroutine runs on its own Go goroutine, but a baton guarantees that exactly one
// executes at any time, so the executor stays deterministic. At scheduling points (spawn, sync
// operations, explicit verifYield in harness callbacks, goroutine exit) the next goroutine to run
// is a choice recorded in the decision trail: interleavings are explored like inputs. Switching
// away from a goroutine that could continue is a preemption; their number per path is bounded.
//
// A vector-clock happens-before detector (spawn, WaitGroup Done->Wait, Mutex Unlock->Lock edges)
// checks every load/store and map access of all goroutines for data races on every explored
// schedule.

import (
	"fmt"
	"go/token"

	"golang.org/x/tools/go/ssa"
)

type gor struct {
	id      int
	resume  chan struct{}
	done    bool
	waitFor func() bool // non-nil while blocked
	what    string
	vc      []int
}

type accessRec struct {
	wG, wC int // last write: goroutine, clock (wG < 0: none)
	reads  map[int]int
}

type scheduler struct {
	gs          []*gor
	cur         int
	preemptions int
	maxPreempt  int
	policy      int // 0: every choice is explored; 1..3: one fixed schedule (lowest id first / highest id first / round robin), for long lists
	abort       interface{}
	killed      bool
	cells       map[*value]*accessRec
	maps        map[*mapVal]*accessRec
	syncVC      map[*value][]int
	races       []string
	active      bool // more than one goroutine has existed
	x           *Exec
}

type killSignal struct{}

func newScheduler(x *Exec, maxPreempt int) *scheduler {
	s := &scheduler{x: x, maxPreempt: maxPreempt, cells: map[*value]*accessRec{}, maps: map[*mapVal]*accessRec{}, syncVC: map[*value][]int{}}
	s.gs = []*gor{{id: 0, resume: make(chan struct{}, 1), vc: []int{1}}}
	return s
}

func (s *scheduler) me() *gor { return s.gs[s.cur] }

func vcGet(vc []int, i int) int {
	if i < len(vc) {
		return vc[i]
	}
	return 0
}

func vcJoin(a, b []int) []int {
	n := len(a)
	if len(b) > n {
		n = len(b)
	}
	out := make([]int, n)
	for i := range out {
		x, y := vcGet(a, i), vcGet(b, i)
		if y > x {
			x = y
		}
		out[i] = x
	}
	return out
}

func (s *scheduler) tick(g *gor) {
	for len(g.vc) <= g.id {
		g.vc = append(g.vc, 0)
	}
	g.vc[g.id]++
}

// runnable goroutines (not done, not blocked or whose wait condition holds)
func (s *scheduler) runnable() []int {
	var out []int
	for _, g := range s.gs {
		if g.done {
			continue
		}
		if g.waitFor != nil && !g.waitFor() {
			continue
		}
		out = append(out, g.id)
	}
	return out
}

// pick: the goroutine a fixed-schedule policy runs next among the runnable ones (me may or may not be one).
func (s *scheduler) pick(rs []int, me int) int {
	switch s.policy {
	case 1: // run to completion, lowest id first
		for _, r := range rs {
			if r == me {
				return me
			}
		}
		return rs[0]
	case 2: // always the youngest runnable goroutine
		return rs[len(rs)-1]
	default: // round robin: the next id after me
		for _, r := range rs {
			if r > me {
				return r
			}
		}
		return rs[0]
	}
}

// switchTo hands the baton to goroutine id and parks the caller until it is resumed.
func (s *scheduler) switchTo(id int) {
	me := s.me()
	if id == me.id {
		return
	}
	s.cur = id
	s.gs[id].resume <- struct{}{}
	<-me.resume
	if s.killed {
		panic(killSignal{})
	}
	s.cur = me.id
	if s.abort != nil && me.id == 0 {
		a := s.abort
		s.abort = nil
		panic(a)
	}
}

// yield is a scheduling point for a goroutine that could continue.
func (s *scheduler) yield(what string) {
	if !s.active {
		return
	}
	rs := s.runnable()
	if len(rs) <= 1 {
		return
	}
	me := s.me()
	if s.policy != 0 {
		if t := s.pick(rs, me.id); t != me.id {
			s.switchTo(t)
		}
		return
	}
	opts := []int{me.id}
	if s.preemptions < s.maxPreempt {
		for _, r := range rs {
			if r != me.id {
				opts = append(opts, r)
			}
		}
	}
	if len(opts) == 1 {
		return
	}
	k := s.x.choose(len(opts), "schedule:"+what)
	if k != 0 {
		s.preemptions++
		s.switchTo(opts[k])
	}
}

// block parks the current goroutine until cond holds (free switch, no preemption counted).
func (s *scheduler) waitUntil(x *Exec, cond func() bool, what string) {
	me := s.me()
	for !cond() {
		me.waitFor = cond
		me.what = what
		rs := s.runnable()
		if len(rs) == 0 {
			me.waitFor = nil
			panic(targetPanic{v: iface{t: x.rtErrType, v: strVal{s: "all goroutines are asleep - deadlock! (" + what + ")"}}, msg: "fatal error: all goroutines are asleep - deadlock! (" + what + ")"})
		}
		k := 0
		if s.policy != 0 {
			t := s.pick(rs, me.id)
			for i, r := range rs {
				if r == t {
					k = i
				}
			}
		} else if len(rs) > 1 {
			k = x.choose(len(rs), "schedule:blocked:"+what)
		}
		s.switchTo(rs[k])
		me.waitFor = nil
	}
}

func (s *scheduler) syncPoint(x *Exec, p *value, what string) { s.yield(what) }

func (s *scheduler) release(x *Exec, p *value) {
	g := s.me()
	s.syncVC[p] = vcJoin(s.syncVC[p], g.vc)
	s.tick(g)
}

func (s *scheduler) acquire(x *Exec, p *value) {
	g := s.me()
	g.vc = vcJoin(g.vc, s.syncVC[p])
}

func (s *scheduler) spawn(x *Exec, fr *frame, instr *ssa.Go, fn value, args []value) {
	parent := s.me()
	child := &gor{id: len(s.gs), resume: make(chan struct{}, 1)}
	child.vc = append([]int{}, parent.vc...)
	for len(child.vc) <= child.id {
		child.vc = append(child.vc, 0)
	}
	child.vc[child.id] = 1
	s.tick(parent)
	s.gs = append(s.gs, child)
	s.active = true
	go func() {
		<-child.resume
		defer func() {
			r := recover()
			child.done = true
			if r != nil {
				if _, ok := r.(killSignal); ok {
					return
				}
				// abort of the whole path (or an uncaught target panic in a goroutine): report through goroutine 0
				if s.abort == nil {
					s.abort = r
				}
			}
			if s.killed {
				return
			}
			// hand the baton on: to goroutine 0 on abort, else to a runnable goroutine
			next := -1
			if s.abort != nil {
				next = 0
			} else {
				rs := s.runnable()
				if len(rs) == 0 {
					// everyone else blocked: wake goroutine 0 with a deadlock abort
					s.abort = targetPanic{msg: "fatal error: all goroutines are asleep - deadlock!"}
					next = 0
				} else {
					k := 0
					if s.policy != 0 {
						t := s.pick(rs, child.id)
						for i, r := range rs {
							if r == t {
								k = i
							}
						}
					} else if len(rs) > 1 {
						k = s.chooseSafe(len(rs), "schedule:exit")
					}
					if k < 0 {
						next = 0
					} else {
						next = rs[k]
					}
				}
			}
			s.cur = next
			s.gs[next].resume <- struct{}{}
		}()
		if s.killed {
			panic(killSignal{})
		}
		s.cur = child.id
		x.call(nil, instr.Pos(), fn, args)
	}()
	// scheduling point: the child may run before the parent continues
	s.yield("go")
}

// chooseSafe is choose() for use in deferred exit code: an abort raised by choose is recorded.
func (s *scheduler) chooseSafe(n int, tag string) (k int) {
	defer func() {
		if r := recover(); r != nil {
			if s.abort == nil {
				s.abort = r
			}
			k = -1
		}
	}()
	return s.x.choose(n, tag)
}

// finish: at the end of the harness all goroutines must have terminated (leaks are reported).
func (s *scheduler) finish(x *Exec) {
	for _, g := range s.gs[1:] {
		if !g.done {
			s.killAll()
			x.R.inconclusive(fmt.Sprintf("%s: goroutine %d still alive at the end of the harness (%s)", x.harness, g.id, g.what))
			return
		}
	}
}

func (s *scheduler) killAll() {
	s.killed = true
	for _, g := range s.gs[1:] {
		if !g.done {
			select {
			case g.resume <- struct{}{}:
			default:
			}
		}
	}
}

// ---- happens-before race detection ----

func (s *scheduler) access(x *Exec, addr *value, m *mapVal, write bool) {
	if !s.active {
		return
	}
	var rec *accessRec
	if addr != nil {
		rec = s.cells[addr]
		if rec == nil {
			rec = &accessRec{wG: -1}
			s.cells[addr] = rec
		}
	} else {
		rec = s.maps[m]
		if rec == nil {
			rec = &accessRec{wG: -1}
			s.maps[m] = rec
		}
	}
	g := s.me()
	ordered := func(og, oc int) bool { return og == g.id || oc <= vcGet(g.vc, og) }
	if rec.wG >= 0 && !ordered(rec.wG, rec.wC) {
		s.race(x, addr, m, rec.wG, true, write)
	}
	if write {
		for rg, rc := range rec.reads {
			if !ordered(rg, rc) {
				s.race(x, addr, m, rg, false, true)
			}
		}
		rec.wG, rec.wC = g.id, vcGet(g.vc, g.id)
		rec.reads = nil
	} else {
		if rec.reads == nil {
			rec.reads = map[int]int{}
		}
		rec.reads[g.id] = vcGet(g.vc, g.id)
	}
}

func (s *scheduler) race(x *Exec, addr *value, m *mapVal, other int, otherWrite, write bool) {
	kind := func(w bool) string {
		if w {
			return "write"
		}
		return "read"
	}
	what := "memory cell"
	if m != nil {
		what = "map"
	}
	msg := fmt.Sprintf("data race: %s by goroutine %d and %s by goroutine %d on a %s without happens-before order", kind(write), s.cur, kind(otherWrite), other, what)
	for _, r := range s.races {
		if r == msg {
			return
		}
	}
	s.races = append(s.races, msg)
	x.raceMsgs = append(x.raceMsgs, msg)
}

var _ = token.NoPos
