package main

// Term layer: hash-consed SMT terms over Bool, fixed-width bit-vectors and
// IEEE floats, with constant folding and light algebraic simplification.
// Every scalar value of the symbolic executor is a *Term (constants included).

import (
	"fmt"
	"math"
	"math/bits"
	"strings"
)

type Kind uint8

const (
	KBool Kind = iota
	KBV
	KFP
)

type Sort struct {
	K Kind
	W int // KBV: bits; KFP: 32 or 64
}

var (
	SBool = Sort{KBool, 0}
	SF64  = Sort{KFP, 64}
	SF32  = Sort{KFP, 32}
)

func BV(w int) Sort { return Sort{KBV, w} }

func (s Sort) String() string {
	switch s.K {
	case KBool:
		return "Bool"
	case KBV:
		return fmt.Sprintf("(_ BitVec %d)", s.W)
	default:
		if s.W == 32 {
			return "(_ FloatingPoint 8 24)"
		}
		return "(_ FloatingPoint 11 53)"
	}
}

func (s Sort) tag() string {
	switch s.K {
	case KBool:
		return "b"
	case KBV:
		return fmt.Sprintf("v%d", s.W)
	default:
		return fmt.Sprintf("f%d", s.W)
	}
}

type Op uint8

const (
	OConst Op = iota
	OVar
	ONot
	OAnd
	OOr
	OIte
	OEq
	OAdd
	OSub
	OMul
	OUDiv
	OURem
	OSDiv
	OSRem
	OBAnd
	OBOr
	OBXor
	OShl
	OLShr
	OAShr
	ONeg
	OBNot
	OUlt
	OUle
	OSlt
	OSle
	OConcat
	OExtract // u = hi<<16|lo
	OZext
	OSext
	OFAdd
	OFSub
	OFMul
	OFDiv
	OFNeg
	OFAbs
	OFLt
	OFLe
	OFEq
	OFIsNaN
	OFIsInf
	OFFromSBV
	OFFromUBV
	OFToSBV // RTZ
	OFToUBV
	OFFromBits
	OFToBits
	OFCvt
	OFRoundRTZ
	OUF
)

var opNames = map[Op]string{
	ONot: "not", OAnd: "and", OOr: "or", OIte: "ite", OEq: "=",
	OAdd: "bvadd", OSub: "bvsub", OMul: "bvmul", OUDiv: "bvudiv", OURem: "bvurem", OSDiv: "bvsdiv", OSRem: "bvsrem",
	OBAnd: "bvand", OBOr: "bvor", OBXor: "bvxor", OShl: "bvshl", OLShr: "bvlshr", OAShr: "bvashr", ONeg: "bvneg", OBNot: "bvnot",
	OUlt: "bvult", OUle: "bvule", OSlt: "bvslt", OSle: "bvsle", OConcat: "concat",
	OFNeg: "fp.neg", OFAbs: "fp.abs", OFLt: "fp.lt", OFLe: "fp.leq", OFEq: "fp.eq", OFIsNaN: "fp.isNaN", OFIsInf: "fp.isInfinite",
}

type Term struct {
	op   Op
	sort Sort
	a0   *Term
	a1   *Term
	a2   *Term
	u    uint64
	name string
	more []*Term // OUF args beyond 3 (rare)
	id   int32
}

type tkey struct {
	op         Op
	sort       Sort
	a0, a1, a2 *Term
	u          uint64
	name       string
}

// TB is a term builder with a hash-consing table. One per executor (not shared between goroutines).
type TB struct {
	known  map[*Term][2]uint64 // path-scoped unsigned ranges learnt from decided conditions
	rmemo  map[*Term][2]uint64 // path-scoped memo of structural ranges
	tab    map[tkey]*Term
	nextID int32
	tTrue  *Term
	tFalse *Term
	bytes  [256]*Term
}

func NewTB() *TB {
	b := &TB{tab: make(map[tkey]*Term, 1<<16)}
	b.init()
	return b
}

func (b *TB) init() {
	b.tTrue = b.mk(tkey{op: OConst, sort: SBool, u: 1})
	b.tFalse = b.mk(tkey{op: OConst, sort: SBool, u: 0})
	for i := 0; i < 256; i++ {
		b.bytes[i] = b.mk(tkey{op: OConst, sort: BV(8), u: uint64(i)})
	}
}

// Reset drops the table when it has grown too large (called at path boundaries only).
func (b *TB) MaybeReset() {
	if len(b.tab) > 3_000_000 {
		b.tab = make(map[tkey]*Term, 1<<16)
		b.nextID = 0
		b.init()
	}
}

func (b *TB) mk(k tkey) *Term {
	if t, ok := b.tab[k]; ok {
		return t
	}
	b.nextID++
	t := &Term{op: k.op, sort: k.sort, a0: k.a0, a1: k.a1, a2: k.a2, u: k.u, name: k.name, id: b.nextID}
	b.tab[k] = t
	return t
}

func mask(w int) uint64 {
	if w >= 64 {
		return ^uint64(0)
	}
	return (uint64(1) << uint(w)) - 1
}

func (t *Term) IsConst() bool { return t.op == OConst }
func (t *Term) Sort() Sort    { return t.sort }

// signed value of a BV const
func (t *Term) sval() int64 {
	w := t.sort.W
	if w >= 64 {
		return int64(t.u)
	}
	if t.u&(1<<uint(w-1)) != 0 {
		return int64(t.u | ^mask(w))
	}
	return int64(t.u)
}

func (b *TB) True() *Term  { return b.tTrue }
func (b *TB) False() *Term { return b.tFalse }
func (b *TB) Bool(v bool) *Term {
	if v {
		return b.tTrue
	}
	return b.tFalse
}

func (b *TB) Const(w int, v uint64) *Term {
	if w == 8 {
		return b.bytes[v&0xff]
	}
	if w > 64 {
		panic("wide const")
	}
	return b.mk(tkey{op: OConst, sort: BV(w), u: v & mask(w)})
}

func (b *TB) Int(v int64) *Term { return b.Const(64, uint64(v)) }

func (b *TB) F64(v float64) *Term {
	return b.mk(tkey{op: OConst, sort: SF64, u: math.Float64bits(v)})
}
func (b *TB) F32(v float32) *Term {
	return b.mk(tkey{op: OConst, sort: SF32, u: uint64(math.Float32bits(v))})
}

func (t *Term) f64() float64 {
	if t.sort.W == 32 {
		return float64(math.Float32frombits(uint32(t.u)))
	}
	return math.Float64frombits(t.u)
}

func (b *TB) fconst(s Sort, v float64) *Term {
	if s.W == 32 {
		return b.F32(float32(v))
	}
	return b.F64(v)
}

func (b *TB) Var(name string, s Sort) *Term {
	return b.mk(tkey{op: OVar, sort: s, name: name})
}

func (b *TB) Not(x *Term) *Term {
	if x.op == OConst {
		return b.Bool(x.u == 0)
	}
	if x.op == ONot {
		return x.a0
	}
	return b.mk(tkey{op: ONot, sort: SBool, a0: x})
}

func (b *TB) And(x, y *Term) *Term {
	if x.op == OConst {
		if x.u == 0 {
			return x
		}
		return y
	}
	if y.op == OConst {
		if y.u == 0 {
			return y
		}
		return x
	}
	if x == y {
		return x
	}
	if (x.op == ONot && x.a0 == y) || (y.op == ONot && y.a0 == x) {
		return b.tFalse
	}
	if x.id > y.id {
		x, y = y, x
	}
	return b.mk(tkey{op: OAnd, sort: SBool, a0: x, a1: y})
}

func (b *TB) Or(x, y *Term) *Term {
	if x.op == OConst {
		if x.u == 1 {
			return x
		}
		return y
	}
	if y.op == OConst {
		if y.u == 1 {
			return y
		}
		return x
	}
	if x == y {
		return x
	}
	if (x.op == ONot && x.a0 == y) || (y.op == ONot && y.a0 == x) {
		return b.tTrue
	}
	if x.id > y.id {
		x, y = y, x
	}
	return b.mk(tkey{op: OOr, sort: SBool, a0: x, a1: y})
}

func (b *TB) Implies(x, y *Term) *Term { return b.Or(b.Not(x), y) }

func (b *TB) Ite(c, x, y *Term) *Term {
	if c.op == OConst {
		if c.u == 1 {
			return x
		}
		return y
	}
	if x == y {
		return x
	}
	if x.sort != y.sort {
		panic(fmt.Sprintf("ite sort mismatch %v %v", x.sort, y.sort))
	}
	if x.sort.K == KBool {
		if x.op == OConst && y.op == OConst {
			if x.u == 1 {
				return c
			}
			return b.Not(c)
		}
		if x.op == OConst {
			if x.u == 1 {
				return b.Or(c, y)
			}
			return b.And(b.Not(c), y)
		}
		if y.op == OConst {
			if y.u == 1 {
				return b.Or(b.Not(c), x)
			}
			return b.And(c, x)
		}
	}
	if c.op == ONot {
		return b.mk(tkey{op: OIte, sort: x.sort, a0: c.a0, a1: y, a2: x})
	}
	return b.mk(tkey{op: OIte, sort: x.sort, a0: c, a1: x, a2: y})
}

func (b *TB) Eq(x, y *Term) *Term {
	if x.sort != y.sort {
		panic(fmt.Sprintf("eq sort mismatch %v %v", x.sort, y.sort))
	}
	if x == y {
		if x.sort.K == KFP {
			// structural identity; NaN handled by OFEq, this is SMT '=' on FP (bit identity modulo NaN)
			return b.tTrue
		}
		return b.tTrue
	}
	if x.op == OConst && y.op == OConst {
		return b.Bool(x.u == y.u)
	}
	if x.op == OConst {
		x, y = y, x
	}
	// y may be const now
	if y.op == OConst {
		switch x.sort.K {
		case KBool:
			if y.u == 1 {
				return x
			}
			return b.Not(x)
		case KBV:
			switch x.op {
			case OIte:
				if x.a1.op == OConst || x.a2.op == OConst {
					return b.Ite(x.a0, b.Eq(x.a1, y), b.Eq(x.a2, y))
				}
			case OZext:
				iw := x.a0.sort.W
				if y.u > mask(iw) {
					return b.tFalse
				}
				return b.Eq(x.a0, b.Const(iw, y.u))
			case OConcat:
				// split
				lw := x.a1.sort.W
				hi := b.Const(x.a0.sort.W, y.u>>uint(lw))
				lo := b.Const(lw, y.u)
				return b.And(b.Eq(x.a0, hi), b.Eq(x.a1, lo))
			}
			if lo, hi, ok := b.urange(x); ok && (y.u < lo || y.u > hi) {
				return b.tFalse
			}
		}
	}
	if x.id > y.id {
		x, y = y, x
	}
	return b.mk(tkey{op: OEq, sort: SBool, a0: x, a1: y})
}

// urange: cheap unsigned interval of a BV term (<=64 bits).
func (b *TB) urange(t *Term) (lo, hi uint64, ok bool) {
	return b.urangeD(t, 80)
}

func (b *TB) urangeD(t *Term, d int) (lo, hi uint64, ok bool) {
	if t.sort.K != KBV || t.sort.W > 64 {
		return 0, 0, false
	}
	if t.op == OConst {
		return t.u, t.u, true
	}
	if b.rmemo != nil && t.op != OVar {
		if r, has := b.rmemo[t]; has {
			return r[0], r[1], true
		}
		l, h, ok := b.urangeS(t, d)
		if ok && d > 40 {
			b.rmemo[t] = [2]uint64{l, h}
		}
		if kr, has := b.known[t]; has {
			if kr[0] > l {
				l = kr[0]
			}
			if kr[1] < h {
				h = kr[1]
			}
		}
		return l, h, ok
	}
	if b.known != nil {
		if r, has := b.known[t]; has {
			l2, h2, _ := b.urangeS(t, d)
			if l2 > r[0] {
				r[0] = l2
			}
			if h2 < r[1] {
				r[1] = h2
			}
			return r[0], r[1], true
		}
	}
	return b.urangeS(t, d)
}

func (b *TB) urangeS(t *Term, d int) (lo, hi uint64, ok bool) {
	if d == 0 {
		return 0, mask(t.sort.W), true
	}
	switch t.op {
	case OZext:
		l, h, ok := b.urangeD(t.a0, d-1)
		if ok {
			return l, h, true
		}
		return 0, mask(t.a0.sort.W), true
	case OIte:
		l1, h1, ok1 := b.urangeD(t.a1, d-1)
		l2, h2, ok2 := b.urangeD(t.a2, d-1)
		if ok1 && ok2 {
			if l2 < l1 {
				l1 = l2
			}
			if h2 > h1 {
				h1 = h2
			}
			return l1, h1, true
		}
	case OBAnd:
		_, h1, _ := b.urangeD(t.a0, d-1)
		_, h2, _ := b.urangeD(t.a1, d-1)
		if h2 < h1 {
			h1 = h2
		}
		return 0, h1, true
	case OBOr:
		l1, h1, _ := b.urangeD(t.a0, d-1)
		l2, h2, _ := b.urangeD(t.a1, d-1)
		if l2 > l1 {
			l1 = l2
		}
		// upper bound: next pow2 envelope
		m := h1 | h2
		n := bits.Len64(m)
		return l1, mask(n) & mask(t.sort.W), true
	case OLShr:
		if t.a1.op == OConst {
			l, h, _ := b.urangeD(t.a0, d-1)
			s := t.a1.u
			if s >= 64 {
				return 0, 0, true
			}
			return l >> s, h >> s, true
		}
	case OAdd:
		l1, h1, _ := b.urangeD(t.a0, d-1)
		l2, h2, _ := b.urangeD(t.a1, d-1)
		hs, c := bits.Add64(h1, h2, 0)
		if c == 0 && hs <= mask(t.sort.W) {
			return l1 + l2, hs, true
		}
		// the whole interval wraps around (e.g. byte - '0' written as byte + 0xd0)
		if t.sort.W < 64 {
			m := mask(t.sort.W)
			if l1+l2 > m && h1+h2 <= 2*m+1 {
				return l1 + l2 - m - 1, h1 + h2 - m - 1, true
			}
		}
	case OURem:
		if t.a1.op == OConst && t.a1.u > 0 {
			return 0, t.a1.u - 1, true
		}
	case OMul:
		l1, h1, _ := b.urangeD(t.a0, d-1)
		l2, h2, _ := b.urangeD(t.a1, d-1)
		hh, hl := bits.Mul64(h1, h2)
		if hh == 0 && hl <= mask(t.sort.W) {
			return l1 * l2, hl, true
		}
	case OSub:
		// x - c with x >= c
		if t.a1.op == OConst {
			l1, h1, _ := b.urangeD(t.a0, d-1)
			if l1 >= t.a1.u {
				return l1 - t.a1.u, h1 - t.a1.u, true
			}
		}
	case OExtract:
		if t.u&0xffff == 0 {
			l1, h1, _ := b.urangeD(t.a0, d-1)
			if h1 <= mask(t.sort.W) {
				return l1, h1, true
			}
		}
	}
	return 0, mask(t.sort.W), true
}

// Learn records what a decided Bool condition says about unsigned ranges of its operands.
func (b *TB) Learn(c *Term, truth bool) {
	if b.known == nil {
		return
	}
	switch c.op {
	case ONot:
		b.Learn(c.a0, !truth)
	case OAnd:
		if truth {
			// twice: what one conjunct teaches may be needed to use the other (and the argument
			// order of And is not stable across runs)
			b.Learn(c.a0, true)
			b.Learn(c.a1, true)
			b.Learn(c.a0, true)
			b.Learn(c.a1, true)
		}
	case OOr:
		if !truth {
			b.Learn(c.a0, false)
			b.Learn(c.a1, false)
			b.Learn(c.a0, false)
			b.Learn(c.a1, false)
		}
	case OEq:
		if truth && c.a0.sort.K == KBV && c.a0.sort.W <= 64 {
			if c.a1.op == OConst {
				b.narrow(c.a0, c.a1.u, c.a1.u)
			} else if c.a0.op == OConst {
				b.narrow(c.a1, c.a0.u, c.a0.u)
			}
		}
	case OUlt, OUle:
		x, y := c.a0, c.a1
		if x.sort.W > 64 {
			return
		}
		strict := c.op == OUlt
		if !truth {
			// not (x < y)  ==  y <= x ; not (x <= y) == y < x
			x, y = y, x
			strict = !strict
		}
		// now: x < y (strict) or x <= y
		if y.op == OConst {
			h := y.u
			if strict {
				if h == 0 {
					return
				}
				h--
			}
			b.narrow(x, 0, h)
		} else if x.op == OConst {
			l := x.u
			if strict {
				if l == mask(x.sort.W) {
					return
				}
				l++
			}
			b.narrow(y, l, mask(y.sort.W))
		}
	case OSlt, OSle:
		// only the non-negative fragment: 0 <= c  and  x <= c with c >= 0 and x known non-negative
		x, y := c.a0, c.a1
		if x.sort.W > 64 {
			return
		}
		strict := c.op == OSlt
		if !truth {
			x, y = y, x
			strict = !strict
		}
		half := uint64(1) << uint(x.sort.W-1)
		if x.op == OConst && x.u < half {
			// c <(=) y, c >= 0  => y in [c(+1), half-1]
			l := x.u
			if strict {
				l++
			}
			b.narrow(y, l, half-1)
		} else if y.op == OConst && y.u < half {
			if _, hx, _ := b.urange(x); hx < half {
				h := y.u
				if strict {
					if h == 0 {
						return
					}
					h--
				}
				b.narrow(x, 0, h)
			}
		}
	}
}

func (b *TB) narrow(t *Term, lo, hi uint64) {
	if t.op == OConst {
		return
	}
	cur, has := b.known[t]
	if !has {
		cur = [2]uint64{0, mask(t.sort.W)}
	}
	if lo > cur[0] {
		cur[0] = lo
	}
	if hi < cur[1] {
		cur[1] = hi
	}
	if cur[0] > cur[1] {
		return
	}
	b.known[t] = cur
	// facts travel through zero extension
	if t.op == OZext && hi <= mask(t.a0.sort.W) {
		b.narrow(t.a0, lo, hi)
	}
}

func (b *TB) bin(op Op, x, y *Term) *Term {
	if x.sort != y.sort {
		panic(fmt.Sprintf("binop %v sort mismatch %v %v", opNames[op], x.sort, y.sort))
	}
	w := x.sort.W
	m := mask(w)
	if x.op == OConst && y.op == OConst && w <= 64 {
		var r uint64
		switch op {
		case OAdd:
			r = x.u + y.u
		case OSub:
			r = x.u - y.u
		case OMul:
			r = x.u * y.u
		case OUDiv:
			if y.u == 0 {
				r = m
			} else {
				r = x.u / y.u
			}
		case OURem:
			if y.u == 0 {
				r = x.u
			} else {
				r = x.u % y.u
			}
		case OSDiv:
			if y.u == 0 {
				if x.sval() < 0 {
					r = 1
				} else {
					r = m
				}
			} else if y.sval() == -1 {
				r = uint64(-x.sval())
			} else {
				r = uint64(x.sval() / y.sval())
			}
		case OSRem:
			if y.u == 0 {
				r = x.u
			} else if y.sval() == -1 {
				r = 0
			} else {
				r = uint64(x.sval() % y.sval())
			}
		case OBAnd:
			r = x.u & y.u
		case OBOr:
			r = x.u | y.u
		case OBXor:
			r = x.u ^ y.u
		case OShl:
			if y.u >= uint64(w) {
				r = 0
			} else {
				r = x.u << y.u
			}
		case OLShr:
			if y.u >= uint64(w) {
				r = 0
			} else {
				r = x.u >> y.u
			}
		case OAShr:
			s := y.u
			if s >= uint64(w) {
				s = uint64(w - 1)
			}
			r = uint64(x.sval() >> s)
		}
		return b.Const(w, r)
	}
	// identities
	switch op {
	case OAdd:
		if x.op == OConst && x.u == 0 {
			return y
		}
		if y.op == OConst && y.u == 0 {
			return x
		}
		if x.op == OConst { // canonical: const on the right
			x, y = y, x
		}
		// (t + c1) + c2
		if y.op == OConst && x.op == OAdd && x.a1.op == OConst {
			return b.bin(OAdd, x.a0, b.Const(w, x.a1.u+y.u))
		}
	case OSub:
		if y.op == OConst && y.u == 0 {
			return x
		}
		if x == y {
			return b.Const(w, 0)
		}
		if y.op == OConst {
			return b.bin(OAdd, x, b.Const(w, -y.u))
		}
	case OMul:
		if x.op == OConst {
			x, y = y, x
		}
		if y.op == OConst {
			if y.u == 0 {
				return y
			}
			if y.u == 1 {
				return x
			}
		}
	case OBAnd:
		if x.op == OConst {
			x, y = y, x
		}
		if y.op == OConst {
			if y.u == 0 {
				return y
			}
			if y.u == m {
				return x
			}
			// mask covering the whole range of x
			if _, h, ok := b.urange(x); ok && y.u&mask(bits.Len64(h)) == mask(bits.Len64(h)) {
				return x
			}
		}
		if x == y {
			return x
		}
	case OBOr:
		if x.op == OConst {
			x, y = y, x
		}
		if y.op == OConst {
			if y.u == 0 {
				return x
			}
			if y.u == m {
				return y
			}
		}
		if x == y {
			return x
		}
	case OBXor:
		if x.op == OConst {
			x, y = y, x
		}
		if y.op == OConst && y.u == 0 {
			return x
		}
		if x == y {
			return b.Const(w, 0)
		}
	case OShl, OLShr, OAShr:
		if y.op == OConst && y.u == 0 {
			return x
		}
		if x.op == OConst && x.u == 0 {
			return x
		}
		if op == OLShr && y.op == OConst {
			if y.u >= uint64(w) {
				return b.Const(w, 0)
			}
			if _, h, ok := b.urange(x); ok && h>>y.u == 0 {
				return b.Const(w, 0)
			}
		}
	case OUDiv:
		if y.op == OConst && y.u == 1 {
			return x
		}
	}
	return b.mk(tkey{op: op, sort: x.sort, a0: x, a1: y})
}

func (b *TB) Add(x, y *Term) *Term  { return b.bin(OAdd, x, y) }
func (b *TB) Sub(x, y *Term) *Term  { return b.bin(OSub, x, y) }
func (b *TB) Mul(x, y *Term) *Term  { return b.bin(OMul, x, y) }
func (b *TB) BAnd(x, y *Term) *Term { return b.bin(OBAnd, x, y) }
func (b *TB) BOr(x, y *Term) *Term  { return b.bin(OBOr, x, y) }

func (b *TB) Neg(x *Term) *Term {
	if x.op == OConst {
		return b.Const(x.sort.W, -x.u)
	}
	return b.mk(tkey{op: ONeg, sort: x.sort, a0: x})
}

func (b *TB) BNot(x *Term) *Term {
	if x.op == OConst {
		return b.Const(x.sort.W, ^x.u)
	}
	if x.op == OBNot {
		return x.a0
	}
	return b.mk(tkey{op: OBNot, sort: x.sort, a0: x})
}

func (b *TB) cmp(op Op, x, y *Term) *Term {
	if x.sort != y.sort {
		panic(fmt.Sprintf("cmp sort mismatch %v %v", x.sort, y.sort))
	}
	if x.op == OConst && y.op == OConst {
		switch op {
		case OUlt:
			return b.Bool(x.u < y.u)
		case OUle:
			return b.Bool(x.u <= y.u)
		case OSlt:
			return b.Bool(x.sval() < y.sval())
		case OSle:
			return b.Bool(x.sval() <= y.sval())
		}
	}
	if x == y {
		return b.Bool(op == OUle || op == OSle)
	}
	// x + y < x is impossible without overflow
	if (op == OUlt || op == OUle) && x.op == OAdd && (x.a0 == y || x.a1 == y) && x.sort.W <= 64 {
		_, ha, _ := b.urange(x.a0)
		_, hb, _ := b.urange(x.a1)
		if sum, carry := bits.Add64(ha, hb, 0); carry == 0 && sum <= mask(x.sort.W) {
			if op == OUlt {
				return b.tFalse
			}
		}
	}
	// interval reasoning
	l1, h1, ok1 := b.urange(x)
	l2, h2, ok2 := b.urange(y)
	if ok1 && ok2 {
		w := x.sort.W
		signedOK := w <= 64 && h1 < (uint64(1)<<uint(w-1)) && h2 < (uint64(1)<<uint(w-1))
		switch op {
		case OUlt:
			if h1 < l2 {
				return b.tTrue
			}
			if l1 >= h2 {
				return b.tFalse
			}
		case OUle:
			if h1 <= l2 {
				return b.tTrue
			}
			if l1 > h2 {
				return b.tFalse
			}
		case OSlt:
			if signedOK {
				if h1 < l2 {
					return b.tTrue
				}
				if l1 >= h2 {
					return b.tFalse
				}
			}
		case OSle:
			if signedOK {
				if h1 <= l2 {
					return b.tTrue
				}
				if l1 > h2 {
					return b.tFalse
				}
			}
		}
		// push comparison with a constant through zext
		if signedOK || op == OUlt || op == OUle {
			uop := op
			if op == OSlt {
				uop = OUlt
			} else if op == OSle {
				uop = OUle
			}
			if x.op == OZext && y.op == OConst && y.u <= mask(x.a0.sort.W) {
				return b.cmp(uop, x.a0, b.Const(x.a0.sort.W, y.u))
			}
			if y.op == OZext && x.op == OConst && x.u <= mask(y.a0.sort.W) {
				return b.cmp(uop, b.Const(y.a0.sort.W, x.u), y.a0)
			}
			if x.op == OZext && y.op == OZext && x.a0.sort == y.a0.sort {
				return b.cmp(uop, x.a0, y.a0)
			}
		}
	}
	return b.mk(tkey{op: op, sort: SBool, a0: x, a1: y})
}

func (b *TB) Ult(x, y *Term) *Term { return b.cmp(OUlt, x, y) }
func (b *TB) Ule(x, y *Term) *Term { return b.cmp(OUle, x, y) }
func (b *TB) Slt(x, y *Term) *Term { return b.cmp(OSlt, x, y) }
func (b *TB) Sle(x, y *Term) *Term { return b.cmp(OSle, x, y) }

func (b *TB) Concat(hi, lo *Term) *Term {
	w := hi.sort.W + lo.sort.W
	if hi.op == OConst && lo.op == OConst && w <= 64 {
		return b.Const(w, hi.u<<uint(lo.sort.W)|lo.u)
	}
	if hi.op == OConst && hi.u == 0 && w <= 64 {
		return b.Zext(lo, w)
	}
	return b.mk(tkey{op: OConcat, sort: BV(w), a0: hi, a1: lo})
}

func (b *TB) Extract(x *Term, hi, lo int) *Term {
	w := hi - lo + 1
	if lo == 0 && w == x.sort.W {
		return x
	}
	if x.op == OConst && x.sort.W <= 64 {
		return b.Const(w, x.u>>uint(lo))
	}
	switch x.op {
	case OZext, OSext:
		iw := x.a0.sort.W
		if hi < iw {
			return b.Extract(x.a0, hi, lo)
		}
		if lo >= iw && x.op == OZext {
			return b.Const(w, 0)
		}
		if lo == 0 && x.op == OZext {
			return b.Zext(x.a0, w)
		}
		if lo == 0 && x.op == OSext {
			return b.Sext(x.a0, w)
		}
	case OConcat:
		lw := x.a1.sort.W
		if hi < lw {
			return b.Extract(x.a1, hi, lo)
		}
		if lo >= lw {
			return b.Extract(x.a0, hi-lw, lo-lw)
		}
	case OExtract:
		ilo := int(x.u & 0xffff)
		return b.Extract(x.a0, hi+ilo, lo+ilo)
	case OBAnd, OBOr, OBXor:
		if lo == 0 {
			return b.bin(x.op, b.Extract(x.a0, hi, 0), b.Extract(x.a1, hi, 0))
		}
	case OAdd, OSub, OMul:
		if lo == 0 && (x.a1.op == OConst || x.a0.op == OConst) {
			return b.bin(x.op, b.Extract(x.a0, hi, 0), b.Extract(x.a1, hi, 0))
		}
	case OIte:
		if x.a1.op == OConst || x.a2.op == OConst {
			return b.Ite(x.a0, b.Extract(x.a1, hi, lo), b.Extract(x.a2, hi, lo))
		}
	case OLShr:
		if x.a1.op == OConst && x.sort.W <= 64 {
			s := int(x.a1.u)
			if hi+s < x.sort.W {
				return b.Extract(x.a0, hi+s, lo+s)
			}
		}
	}
	return b.mk(tkey{op: OExtract, sort: BV(w), a0: x, u: uint64(hi)<<16 | uint64(lo)})
}

func (b *TB) Zext(x *Term, w int) *Term {
	if w == x.sort.W {
		return x
	}
	if w < x.sort.W {
		return b.Extract(x, w-1, 0)
	}
	if x.op == OConst {
		return b.Const(w, x.u)
	}
	if x.op == OZext {
		return b.Zext(x.a0, w)
	}
	if x.op == OIte && (x.a1.op == OConst || x.a2.op == OConst) {
		return b.Ite(x.a0, b.Zext(x.a1, w), b.Zext(x.a2, w))
	}
	return b.mk(tkey{op: OZext, sort: BV(w), a0: x})
}

func (b *TB) Sext(x *Term, w int) *Term {
	if w == x.sort.W {
		return x
	}
	if w < x.sort.W {
		return b.Extract(x, w-1, 0)
	}
	if x.op == OConst {
		return b.Const(w, uint64(x.sval()))
	}
	if x.op == OZext {
		return b.Zext(x.a0, w)
	}
	if _, h, ok := b.urange(x); ok && h < (uint64(1)<<uint(x.sort.W-1)) {
		return b.Zext(x, w)
	}
	if x.op == OIte && (x.a1.op == OConst || x.a2.op == OConst) {
		return b.Ite(x.a0, b.Sext(x.a1, w), b.Sext(x.a2, w))
	}
	return b.mk(tkey{op: OSext, sort: BV(w), a0: x})
}

// ---- floating point ----

func (b *TB) fbin(op Op, x, y *Term) *Term {
	if x.sort != y.sort {
		panic("fp sort mismatch")
	}
	if x.op == OConst && y.op == OConst {
		if x.sort.W == 32 {
			a, c := math.Float32frombits(uint32(x.u)), math.Float32frombits(uint32(y.u))
			var r float32
			switch op {
			case OFAdd:
				r = a + c
			case OFSub:
				r = a - c
			case OFMul:
				r = a * c
			case OFDiv:
				r = a / c
			}
			return b.F32(r)
		}
		a, c := math.Float64frombits(x.u), math.Float64frombits(y.u)
		var r float64
		switch op {
		case OFAdd:
			r = a + c
		case OFSub:
			r = a - c
		case OFMul:
			r = a * c
		case OFDiv:
			r = a / c
		}
		return b.F64(r)
	}
	return b.mk(tkey{op: op, sort: x.sort, a0: x, a1: y})
}

func (b *TB) fcmp(op Op, x, y *Term) *Term {
	if x.sort != y.sort {
		panic("fp sort mismatch")
	}
	if x.op == OConst && y.op == OConst {
		a, c := x.f64(), y.f64()
		switch op {
		case OFLt:
			return b.Bool(a < c)
		case OFLe:
			return b.Bool(a <= c)
		case OFEq:
			return b.Bool(a == c)
		}
	}
	return b.mk(tkey{op: op, sort: SBool, a0: x, a1: y})
}

func (b *TB) fun(op Op, x *Term) *Term {
	if x.op == OConst {
		v := x.f64()
		switch op {
		case OFNeg:
			return b.fconst(x.sort, -v)
		case OFAbs:
			return b.fconst(x.sort, math.Abs(v))
		case OFIsNaN:
			return b.Bool(math.IsNaN(v))
		case OFIsInf:
			return b.Bool(math.IsInf(v, 0))
		case OFRoundRTZ:
			return b.fconst(x.sort, math.Trunc(v))
		}
	}
	s := x.sort
	if op == OFIsNaN || op == OFIsInf {
		s = SBool
	}
	if op == OFIsNaN && x.op == OFFromSBV {
		return b.tFalse
	}
	return b.mk(tkey{op: op, sort: s, a0: x})
}

func (b *TB) FFromBits(x *Term) *Term {
	s := SF64
	if x.sort.W == 32 {
		s = SF32
	}
	if x.op == OConst {
		return b.mk(tkey{op: OConst, sort: s, u: x.u})
	}
	if x.op == OFToBits {
		return x.a0
	}
	return b.mk(tkey{op: OFFromBits, sort: s, a0: x})
}

func (b *TB) FToBits(x *Term) *Term {
	if x.op == OConst {
		return b.Const(x.sort.W, x.u)
	}
	if x.op == OFFromBits {
		return x.a0
	}
	return b.mk(tkey{op: OFToBits, sort: BV(x.sort.W), a0: x})
}

func (b *TB) FFromInt(x *Term, signed bool, s Sort) *Term {
	if x.op == OConst {
		if signed {
			return b.fconst(s, float64(x.sval()))
		}
		return b.fconst(s, float64(x.u))
	}
	op := OFFromUBV
	if signed {
		op = OFFromSBV
	}
	return b.mk(tkey{op: op, sort: s, a0: x})
}

func (b *TB) FToInt(x *Term, signed bool, w int) *Term {
	if x.op == OConst {
		v := x.f64()
		if signed {
			var r int64
			switch w {
			case 8:
				r = int64(int8(v))
			case 16:
				r = int64(int16(v))
			case 32:
				r = int64(int32(v))
			default:
				r = int64(v)
			}
			return b.Const(w, uint64(r))
		}
		var r uint64
		switch w {
		case 8:
			r = uint64(uint8(v))
		case 16:
			r = uint64(uint16(v))
		case 32:
			r = uint64(uint32(v))
		default:
			r = uint64(v)
		}
		return b.Const(w, r)
	}
	op := OFToUBV
	if signed {
		op = OFToSBV
	}
	return b.mk(tkey{op: op, sort: BV(w), a0: x})
}

func (b *TB) FCvt(x *Term, s Sort) *Term {
	if x.sort == s {
		return x
	}
	if x.op == OConst {
		return b.fconst(s, x.f64())
	}
	return b.mk(tkey{op: OFCvt, sort: s, a0: x})
}

// UF application (used for the float-text contract PF).
func (b *TB) UF(name string, s Sort, args ...*Term) *Term {
	if len(args) > 1 {
		panic("UF arity >1 unsupported: pack arguments into one bit-vector")
	}
	return b.mk(tkey{op: OUF, sort: s, a0: args[0], name: name})
}

// ---- printing ----

func constStr(t *Term) string {
	switch t.sort.K {
	case KBool:
		if t.u == 1 {
			return "true"
		}
		return "false"
	case KBV:
		w := t.sort.W
		if w%4 == 0 {
			return fmt.Sprintf("#x%0*x", w/4, t.u)
		}
		return fmt.Sprintf("#b%0*b", w, t.u)
	default:
		if t.sort.W == 32 {
			u := uint32(t.u)
			return fmt.Sprintf("(fp #b%b #b%08b #b%023b)", u>>31, (u>>23)&0xff, u&0x7fffff)
		}
		u := t.u
		return fmt.Sprintf("(fp #b%b #b%011b #b%052b)", u>>63, (u>>52)&0x7ff, u&((1<<52)-1))
	}
}

type printer struct {
	refs  map[*Term]int
	names map[*Term]string
	vars  map[*Term]bool
	ufs   map[string]*Term
	sb    *strings.Builder
	n     int
}

func (p *printer) count(t *Term) {
	p.refs[t]++
	if p.refs[t] > 1 {
		return
	}
	if t.op == OVar {
		p.vars[t] = true
	}
	if t.op == OUF {
		p.ufs[t.name] = t
	}
	if t.a0 != nil {
		p.count(t.a0)
	}
	if t.a1 != nil {
		p.count(t.a1)
	}
	if t.a2 != nil {
		p.count(t.a2)
	}
}

func (p *printer) expr(t *Term) string {
	if n, ok := p.names[t]; ok {
		return n
	}
	switch t.op {
	case OConst:
		return constStr(t)
	case OVar:
		return t.name
	}
	var s string
	x := func(a *Term) string { return p.expr(a) }
	switch t.op {
	case OExtract:
		s = fmt.Sprintf("((_ extract %d %d) %s)", t.u>>16, t.u&0xffff, x(t.a0))
	case OZext:
		s = fmt.Sprintf("((_ zero_extend %d) %s)", t.sort.W-t.a0.sort.W, x(t.a0))
	case OSext:
		s = fmt.Sprintf("((_ sign_extend %d) %s)", t.sort.W-t.a0.sort.W, x(t.a0))
	case OFAdd:
		s = fmt.Sprintf("(fp.add RNE %s %s)", x(t.a0), x(t.a1))
	case OFSub:
		s = fmt.Sprintf("(fp.sub RNE %s %s)", x(t.a0), x(t.a1))
	case OFMul:
		s = fmt.Sprintf("(fp.mul RNE %s %s)", x(t.a0), x(t.a1))
	case OFDiv:
		s = fmt.Sprintf("(fp.div RNE %s %s)", x(t.a0), x(t.a1))
	case OFFromSBV:
		s = fmt.Sprintf("((_ to_fp %s) RNE %s)", fpdims(t.sort), x(t.a0))
	case OFFromUBV:
		s = fmt.Sprintf("((_ to_fp_unsigned %s) RNE %s)", fpdims(t.sort), x(t.a0))
	case OFToSBV:
		s = fmt.Sprintf("((_ fp.to_sbv %d) RTZ %s)", t.sort.W, x(t.a0))
	case OFToUBV:
		s = fmt.Sprintf("((_ fp.to_ubv %d) RTZ %s)", t.sort.W, x(t.a0))
	case OFFromBits:
		s = fmt.Sprintf("((_ to_fp %s) %s)", fpdims(t.sort), x(t.a0))
	case OFToBits:
		s = fmt.Sprintf("(fp.to_ieee_bv %s)", x(t.a0))
	case OFCvt:
		s = fmt.Sprintf("((_ to_fp %s) RNE %s)", fpdims(t.sort), x(t.a0))
	case OFRoundRTZ:
		s = fmt.Sprintf("(fp.roundToIntegral RTZ %s)", x(t.a0))
	case OUF:
		s = fmt.Sprintf("(%s %s)", t.name, x(t.a0))
	default:
		name := opNames[t.op]
		if name == "" {
			panic(fmt.Sprintf("print: op %d", t.op))
		}
		s = "(" + name + " " + x(t.a0)
		if t.a1 != nil {
			s += " " + x(t.a1)
		}
		if t.a2 != nil {
			s += " " + x(t.a2)
		}
		s += ")"
	}
	if p.refs[t] > 1 {
		p.n++
		nm := fmt.Sprintf("?t%d", p.n)
		p.names[t] = nm
		p.sb.WriteString("(let ((" + nm + " " + s + ")) ")
		return nm
	}
	return s
}

func fpdims(s Sort) string {
	if s.W == 32 {
		return "8 24"
	}
	return "11 53"
}

// Print returns the SMT-LIB text of a Bool term, plus the variables and UFs it mentions.
func PrintTerm(t *Term) (string, []*Term, map[string]*Term) {
	p := &printer{refs: map[*Term]int{}, names: map[*Term]string{}, vars: map[*Term]bool{}, ufs: map[string]*Term{}, sb: &strings.Builder{}}
	p.count(t)
	body := p.expr(t)
	p.sb.WriteString(body)
	for i := 0; i < p.n; i++ {
		p.sb.WriteByte(')')
	}
	vars := make([]*Term, 0, len(p.vars))
	for v := range p.vars {
		vars = append(vars, v)
	}
	return p.sb.String(), vars, p.ufs
}
