package anytype

// C01 — serialise-then-parse round trip preserves every value and its type.

func hRoundTrip(c any) (back any, err error, panicked bool) {
	switch x := c.(type) {
	case List:
		return hParseAny(true, x.String())
	case Object:
		return hParseAny(false, x.String())
	}
	return nil, nil, true
}

func hCheckRoundTrip(c any, twice bool) {
	before := hSnapAny(c)
	back, err, p := hRoundTrip(c)
	verifAssert(!p, "parsing the serialised container does not panic")
	verifAssert(err == nil && back != nil, "parsing the serialised container returns no error")
	if err != nil || back == nil {
		return
	}
	eq, _ := hEqualsAny(back, c)
	verifAssert(eq, "the re-parsed container Equals the original")
	verifAssert(hExact(before, hSnapAny(back)), "every element kind and value is preserved exactly (float stays float, int stays int)")
	if twice {
		back2, err2, _ := hRoundTrip(back)
		verifAssert(err2 == nil && back2 != nil, "serialising the re-parsed container and parsing again succeeds")
		if err2 == nil && back2 != nil {
			verifAssert(hExact(before, hSnapAny(back2)), "a second round trip yields an equal container")
		}
	}
}

// any Unicode scalar value as string value and as object key
func H_C01_string_rune() {
	verifBound("STRRUNES", 1)
	s := string(hValidRune())
	if nondetIntRange(0, 1) == 0 {
		hCheckRoundTrip(NewList(s), true)
	} else {
		hCheckRoundTrip(NewObject(s, s), true)
	}
	verifReach("end")
}

// the empty string / empty key, and two-rune strings from the interesting classes
func H_C01_string_pairs() {
	verifBound("STRRUNES_PAIR", 2)
	pick := func() string {
		switch nondetIntRange(0, 5) {
		case 0:
			return "\""
		case 1:
			return "\\"
		case 2:
			r := nondetRune()
			verifAssume(verifAnd(r >= 0, r < 0x20))
			return string(r)
		case 3:
			r := nondetRune()
			verifAssume(verifAnd(r >= 0x7f, r < 0xa0))
			return string(r)
		case 4:
			return ""
		default:
			c := nondetByte() // letters that follow a backslash in escapes, brackets, separators
			verifAssume(verifOr(verifOr(c == 'u', c == 'n'), verifOr(verifOr(c == ',', c == ':'), verifOr(verifOr(c == ']', c == '}'), verifOr(c == '[', c == '{')))))
			return string([]byte{c})
		}
	}
	s := pick() + pick()
	if nondetIntRange(0, 1) == 0 {
		hCheckRoundTrip(NewList(s, s), false)
	} else {
		hCheckRoundTrip(NewObject(s, 1), false)
	}
	verifReach("end")
}

// every platform int
func H_C01_int() {
	verifBound("INTDIG", 19)
	x := nondetInt()
	if nondetIntRange(0, 1) == 0 {
		hCheckRoundTrip(NewList(x), false)
	} else {
		hCheckRoundTrip(NewObject("k", x), false)
	}
	verifReach("end")
}

// every finite float64 (digits by contract; the magnitude branch, the verb choice, the kind cascade are real)
func H_C01_float() {
	verifBound("FLTFRAC", 2)
	f := hFiniteFloat()
	hCheckRoundTrip(NewList(f), false)
	verifReach("end")
}

// trees: nesting, keys, separators, mixed kinds
func H_C01_tree() {
	verifBound("DEPTH", 2)
	verifBound("WIDTH", 2)
	g := &hGen{scalars: []Type{TypeInt, TypeString}, width: 2, keyBytes: 1, strBytes: 1, strMin: 1, intBound: 10, nonNeg: true, fixKeys: true}
	if verifTier() > 0 {
		g.scalars = []Type{TypeNil, TypeBool, TypeInt, TypeString}
	}
	var nd *hNode
	if nondetIntRange(0, 1) == 1 {
		nd = g.list(2)
	} else {
		nd = g.object(2)
	}
	if verifTier() > 0 {
		hAsciiTree(nd)
	} else {
		hLetterTree(nd)
	}
	hCheckRoundTrip(nd.build(), true)
	verifReach("end")
}

// strings restricted to lower-case letters (no escaping paths)
func hLetterTree(n *hNode) {
	if n.kind == TypeString {
		for i := 0; i < len(n.s); i++ {
			verifAssume(verifAnd(n.s[i] >= 'a', n.s[i] <= 'z'))
		}
	}
	for _, c := range n.kids {
		hLetterTree(c)
	}
}

// flat containers with symbolic keys and all scalar kinds side by side
func H_C01_flat() {
	w := 2
	if verifTier() > 0 {
		w = 3
	}
	verifBound("FLAT_WIDTH", w)
	g := &hGen{scalars: []Type{TypeNil, TypeBool, TypeInt, TypeString}, width: w, keyBytes: 1, strBytes: 1, strMin: 0, intBound: 100, nonNeg: true}
	var nd *hNode
	if nondetIntRange(0, 1) == 1 {
		nd = g.list(1)
	} else {
		nd = g.object(1)
	}
	hAsciiTree(nd)
	hCheckRoundTrip(nd.build(), false)
	verifReach("end")
}

// acyclic trees in which the same container instance is reachable twice
func H_C01_shared_child() {
	c := hDiamond()
	p := verifCatch(func() { hCheckRoundTrip(c, true) })
	verifAssert(!p, "serialising and parsing an acyclic tree does not panic")
	verifReach("end")
}

// the round trip inside a history: a container that was serialised before and then changed inside a nested
// container still round-trips to its current content
func H_C01_roundtrip_after_nested_mutation() {
	x, y := nondetInt(), nondetInt()
	verifAssume(verifAnd(verifAnd(x >= 0, x < 10), verifAnd(y >= 0, y < 10)))
	innerL := NewList(x, "s")
	innerO := NewObject("q", x)
	var c any
	if nondetIntRange(0, 1) == 0 {
		c = NewList(innerL, innerO)
	} else {
		c = NewObject("l", innerL, "o", innerO)
	}
	hStringAny(c)
	if nondetIntRange(0, 1) == 0 {
		innerL.Add(y)
	} else {
		innerO.Set("q", 1.5).Set("z", y)
	}
	hCheckRoundTrip(c, false)
	verifReach("end")
}

// every string of two (thorough: three) arbitrary Unicode scalar values as a string value and as a key
func H_C01_string_runes() {
	n := 2
	if verifTier() > 0 {
		n = 3
	}
	verifBound("STRRUNES", n)
	s := ""
	for i := 0; i < n; i++ {
		s += string(hValidRune())
	}
	if nondetIntRange(0, 1) == 0 {
		hCheckRoundTrip(NewList(s), false)
	} else {
		hCheckRoundTrip(NewObject(s, 1), false)
	}
	verifReach("end")
}

// objects with the empty key next to siblings of every kind (both serialisation orders are explored by the
// map model), at the root and nested
func H_C01_empty_key_with_siblings() {
	x := nondetInt()
	verifAssume(verifAnd(x >= 0, x < 10))
	var sib any
	switch nondetIntRange(0, 4) {
	case 0:
		sib = x
	case 1:
		sib = hAscii(1)
	case 2:
		sib = ""
	case 3:
		sib = nil
	default:
		sib = NewList(x)
	}
	k := hAscii(1)
	o := NewObject("", sib, k, sib)
	switch nondetIntRange(0, 2) {
	case 0:
		hCheckRoundTrip(o, false)
	case 1:
		hCheckRoundTrip(NewList(o, 1), false)
	default:
		hCheckRoundTrip(NewObject("in", o, "", x), false)
	}
	verifReach("end")
}
