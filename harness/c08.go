package anytype

// C08 — Clone is a deep copy that shares no mutable container with its source.

func hCloneAny(v any) any {
	switch c := v.(type) {
	case List:
		return c.Clone()
	case Object:
		return c.Clone()
	}
	return nil
}

// hMutateSomewhere applies one mutation at a chosen container inside root.
func hMutateSomewhere(root any) {
	var cs []any
	hContainers(root, &cs)
	target := cs[nondetIntRange(0, len(cs)-1)]
	var v any = nondetInt()
	switch t := target.(type) {
	case List:
		switch nondetIntRange(0, 7) {
		case 6:
			t.Reverse()
		case 7:
			if t.Count() > 0 && t.AllInts() {
				t.Sort()
			} else {
				t.Add(v)
			}
		case 0:
			t.Add(v)
		case 1:
			if t.Count() > 0 {
				t.Replace(nondetIntRange(0, t.Count()-1), v)
			} else {
				t.Add(v)
			}
		case 2:
			if t.Count() > 0 {
				t.Delete(nondetIntRange(0, t.Count()-1))
			} else {
				t.Add(v)
			}
		case 3:
			t.Insert(0, v)
		case 4:
			t.SetTF("#0", v)
		default:
			if t.Count() > 0 {
				t.Clear()
			} else {
				t.Add(v)
			}
		}
	case Object:
		switch nondetIntRange(0, 3) {
		case 0:
			t.Set(hBytesStr(1), v)
		case 1:
			ks := t.Keys()
			if ks.Count() > 0 {
				t.Unset(ks.GetString(nondetIntRange(0, ks.Count()-1)))
			} else {
				t.Set("n", v)
			}
		case 2:
			t.SetTF(".zz", v)
		default:
			if t.Count() > 0 {
				t.Clear()
			} else {
				t.Set("n", v)
			}
		}
	}
}

func H_C08_clone() {
	d := 2
	g := &hGen{scalars: []Type{TypeInt, TypeString}, width: 2, keyBytes: 1, strBytes: 1, strMin: 1}
	if verifTier() > 0 {
		g.scalars = []Type{TypeNil, TypeInt, TypeFloat, TypeString}
	}
	verifBound("DEPTH", d)
	verifBound("WIDTH", 2)
	var n *hNode
	if nondetIntRange(0, 1) == 0 {
		n = g.list(d)
	} else {
		n = g.object(d)
	}
	c := n.build()
	before := hSnapAny(c)
	cl := hCloneAny(c)
	verifAssert(hExact(before, hSnapAny(c)), "Clone does not modify the original")
	verifAssert(hExact(before, hSnapAny(cl)), "the clone has the same content, kinds included")
	eq, _ := hEqualsAny(cl, c)
	verifAssert(eq, "the clone Equals the original")
	// no container of the clone is a container of the original
	var co, cc []any
	hContainers(c, &co)
	hContainers(cl, &cc)
	verifAssert(len(co) == len(cc), "the clone has as many nested containers as the original")
	shared := false
	backing := false
	for _, x := range co {
		for _, y := range cc {
			if x == y {
				shared = true
			}
			if verifSameBacking(x, y) {
				backing = true
			}
		}
	}
	verifAssert(!shared, "no container reachable from the clone is reachable from the original")
	verifAssert(!backing, "no list of the clone shares its backing array with a list of the original")
	verifReach("end")
}

// one arbitrary mutation anywhere in one of the two leaves the other unchanged
func H_C08_clone_then_mutate() {
	x, y := nondetInt(), hBytesStr(1)
	k1, k2 := hBytesStr(1), hBytesStr(1)
	verifAssume(k1 != k2)
	var c any
	switch nondetIntRange(0, 3) {
	case 0:
		c = NewList(x, NewObject(k1, y, k2, NewList(x, NewObject())), NewList(NewList(y)))
	case 1:
		c = NewObject(k1, NewList(x, NewObject(k2, y)), k2, NewObject(k1, NewList(), k2, x))
	case 2:
		c = NewList(NewList(), NewObject(), y)
	default:
		c = NewObject(k1, x)
	}
	before := hSnapAny(c)
	cl := hCloneAny(c)
	if nondetIntRange(0, 1) == 0 {
		hMutateSomewhere(cl)
		verifAssert(hExact(before, hSnapAny(c)), "mutating the clone leaves the original unchanged")
	} else {
		hMutateSomewhere(c)
		verifAssert(hExact(before, hSnapAny(cl)), "mutating the original leaves the clone unchanged")
	}
	verifReach("end")
}

// an object or list that holds the same nested container twice: the clone must still be independent
func H_C08_clone_shared_child() {
	inner := NewList(nondetInt(), hBytesStr(1))
	io := NewObject("q", inner)
	var c any
	if nondetIntRange(0, 1) == 0 {
		c = NewList(inner, io, inner)
	} else {
		c = NewObject("a", inner, "b", io, "c", inner)
	}
	before := hSnapAny(c)
	cl := hCloneAny(c)
	verifAssert(hExact(before, hSnapAny(cl)), "the clone has the same content")
	var co, cc []any
	hContainers(c, &co)
	hContainers(cl, &cc)
	shared := false
	for _, x := range co {
		for _, y := range cc {
			if x == y {
				shared = true
			}
		}
	}
	verifAssert(!shared, "no container reachable from the clone is reachable from the original")
	hMutateSomewhere(cl)
	verifAssert(hExact(before, hSnapAny(c)), "mutating the clone leaves the original unchanged")
	verifReach("end")
}

// lists that carry spare capacity (emptied or shortened by Pop/Delete), at the root or nested: the clone
// must not sit on the original's backing array — observable when both sides append afterwards.
func H_C08_clone_spare_capacity() {
	verifBound("SPARE", 2)
	n := nondetIntRange(0, 2)
	spare := nondetIntRange(1, 2)
	l := hListWithSpare(n, spare)
	for i := 0; i < n; i++ {
		l.Replace(i, nondetInt())
	}
	var c any
	var inC, inCl List
	switch nondetIntRange(0, 2) {
	case 0:
		c = List(l)
	case 1:
		c = NewList(l, 1)
	default:
		c = NewObject("k", l)
	}
	before := hSnapAny(c)
	cl := hCloneAny(c)
	verifAssert(hExact(before, hSnapAny(cl)), "the clone has the same content")
	switch x := cl.(type) {
	case List:
		inC, inCl = l, x
		if x.Count() > 0 && x.TypeOf(0) == TypeList && c != any(List(l)) {
			inCl = x.GetList(0)
		}
	case Object:
		inC, inCl = l, x.GetList("k")
	}
	verifAssert(!verifSameBacking(inC, inCl), "no list of the clone shares its backing array with a list of the original")
	a, b := nondetInt(), nondetInt()
	if nondetIntRange(0, 1) == 0 {
		inCl.Add(a)
		mid := hSnapAny(cl)
		inC.Add(b)
		verifAssert(hExact(mid, hSnapAny(cl)), "appending to the original after appending to the clone leaves the clone unchanged")
	} else {
		inC.Add(a)
		mid := hSnapAny(c)
		inCl.Add(b)
		verifAssert(hExact(mid, hSnapAny(c)), "appending to the clone after appending to the original leaves the original unchanged")
	}
	verifReach("end")
}

// user-defined containers (structs embedding List/Object, registered with Init) held as values inside the
// tree: they are Lists/Objects reachable from the original, so nothing reachable from the clone may be
// identical to them, and a later mutation inside one side must not show on the other
func H_C08_clone_with_derived_children() {
	x := nondetInt()
	dl := hDerivedList(x, "s")
	do := hDerivedObject("q", x)
	var c any
	if nondetIntRange(0, 1) == 0 {
		c = NewList(dl, do, NewObject("in", do))
	} else {
		c = NewObject("l", dl, "o", do, "n", NewList(dl))
	}
	before := hSnapAny(c)
	cl := hCloneAny(c)
	verifAssert(hExact(before, hSnapAny(cl)), "the clone has the same content")
	var co, cc []any
	hContainers(c, &co)
	hContainers(cl, &cc)
	shared := false
	for _, a := range co {
		for _, b := range cc {
			if a == b {
				shared = true
			}
		}
	}
	verifAssert(!shared, "no container reachable from the clone is reachable from the original")
	if nondetIntRange(0, 1) == 0 {
		hMutateSomewhere(cl)
		verifAssert(hExact(before, hSnapAny(c)), "mutating the clone leaves the original unchanged")
	} else {
		hMutateSomewhere(c)
		verifAssert(hExact(before, hSnapAny(cl)), "mutating the original leaves the clone unchanged")
	}
	verifReach("end")
}

// cloning the same container repeatedly with mutations in between: every Clone reflects the content at the
// time of that call, and all clones stay independent of the original and of each other
func H_C08_clone_repeatedly() {
	x, y := nondetInt(), hBytesStr(1)
	k := hBytesStr(1)
	var c any
	if nondetIntRange(0, 1) == 0 {
		c = NewList(x, NewObject(k, y), NewList(y))
	} else {
		c = NewObject(k, NewList(x, NewObject("z", y)), "w", x)
	}
	cl1 := hCloneAny(c)
	s1 := hSnapAny(cl1)
	if nondetIntRange(0, 1) == 0 {
		hMutateSomewhere(c)
	} else {
		hMutateSomewhere(cl1)
		s1 = hSnapAny(cl1)
	}
	now := hSnapAny(c)
	cl2 := hCloneAny(c)
	verifAssert(hExact(now, hSnapAny(cl2)), "a later Clone has the content the original has at that time")
	verifAssert(hExact(s1, hSnapAny(cl1)), "a later Clone of the original leaves an earlier clone unchanged")
	var co, c1, c2 []any
	hContainers(c, &co)
	hContainers(cl1, &c1)
	hContainers(cl2, &c2)
	shared := false
	for _, a := range c2 {
		for _, b := range co {
			shared = shared || a == b
		}
		for _, b := range c1 {
			shared = shared || a == b
		}
	}
	verifAssert(!shared, "no container reachable from a clone is reachable from the original or from another clone")
	hMutateSomewhere(cl2)
	verifAssert(hExact(now, hSnapAny(c)) && hExact(s1, hSnapAny(cl1)), "mutating a clone leaves the original and the other clones unchanged")
	verifReach("end")
}

// sources that were themselves produced by deriving operations (SubList, Concat, Filter, NewListOf) and hold
// containers and unsorted numbers: the clone is just as deep and independent
func H_C08_clone_of_derived_sources() {
	x, y := nondetInt(), nondetInt()
	inner := NewList(y, x)
	io := NewObject("q", inner)
	base := NewList(inner, io, 7)
	var c any
	switch nondetIntRange(0, 4) {
	case 0:
		c = base.SubList(0, 0)
	case 1:
		c = base.Concat(NewList(io))
	case 2:
		c = NewObject("k", base.SubList(0, 2), "n", NewList(y, x, 3))
	case 3:
		c = base.Filter(func(v any) bool { return true })
	default:
		c = NewListOf(inner, 2)
	}
	before := hSnapAny(c)
	cl := hCloneAny(c)
	verifAssert(hExact(before, hSnapAny(cl)), "the clone has the same content")
	var co, cc []any
	hContainers(c, &co)
	hContainers(cl, &cc)
	shared := false
	for _, a := range co {
		for _, b := range cc {
			shared = shared || a == b
		}
	}
	verifAssert(!shared, "no container reachable from the clone is reachable from the original")
	if nondetIntRange(0, 1) == 0 {
		hMutateSomewhere(cl)
		verifAssert(hExact(before, hSnapAny(c)), "mutating the clone leaves the original unchanged")
	} else {
		hMutateSomewhere(c)
		verifAssert(hExact(before, hSnapAny(cl)), "mutating the original leaves the clone unchanged")
	}
	verifReach("end")
}

// wider and deeper skeletons: several sibling containers at one level, the earlier ones holding several
// nested containers themselves (three container levels)
func H_C08_clone_wide_and_deep() {
	a, b := nondetInt(), hBytesStr(1)
	var c any
	switch nondetIntRange(0, 2) {
	case 0:
		c = NewList(NewList(NewList(a), NewList(b)), NewList(NewList(a)), NewList(NewObject("k", NewList(b))))
	case 1:
		c = NewObject("x", NewObject("p", NewList(a), "q", NewObject("r", b)), "y", NewObject("s", NewList(b)), "z", NewList(NewList(a), NewList(b)))
	default:
		c = NewList(NewObject("p", NewList(a), "q", NewList(b)), NewList(NewObject("r", NewList(a))), NewObject("s", NewObject("t", NewList(b))))
	}
	before := hSnapAny(c)
	cl := hCloneAny(c)
	verifAssert(hExact(before, hSnapAny(cl)), "the clone has the same content")
	var co, cc []any
	hContainers(c, &co)
	hContainers(cl, &cc)
	shared := false
	for _, x := range co {
		for _, y := range cc {
			shared = shared || x == y
		}
	}
	verifAssert(len(co) == len(cc) && !shared, "no container reachable from the clone is reachable from the original")
	verifReach("end")
}

// lists and objects mixing ints, floats and other scalars side by side (numeric fast paths must not reorder,
// convert or drop elements)
func H_C08_clone_mixed_scalars() {
	a, f := nondetInt(), hFiniteFloat()
	s := hBytesStr(1)
	var c any
	switch nondetIntRange(0, 3) {
	case 0:
		c = NewList(a, f, a)
	case 1:
		c = NewList(f, a, NewList(a, f), s)
	case 2:
		c = NewObject("i", a, "f", f, "l", NewList(f, a, nil, true))
	default:
		c = NewList(s, s, NewList(true, false), NewList(nil, nil))
	}
	before := hSnapAny(c)
	cl := hCloneAny(c)
	verifAssert(hExact(before, hSnapAny(cl)), "the clone has the same content, kinds included")
	eq, _ := hEqualsAny(cl, c)
	verifAssert(eq, "the clone Equals the original")
	verifReach("end")
}

// infinite floats are floats like any other: the clone of a tree holding them Equals the original, at the top
// and nested, and stays independent
func H_C08_clone_infinite_floats() {
	inf := hInfinity(nondetIntRange(0, 1) == 1)
	x := nondetInt()
	var c any
	if nondetIntRange(0, 1) == 0 {
		c = NewList(inf, NewObject("k", inf, "n", x), x)
	} else {
		c = NewObject("f", inf, "l", NewList(x, inf))
	}
	var cl any
	if l, ok := c.(List); ok {
		cl = l.Clone()
	} else {
		cl = c.(Object).Clone()
	}
	eq, p := hEqualsAny(cl, c)
	verifAssert(!p && eq, "Clone returns a container that Equals the original")
	verifAssert(hExact(hSnapAny(c), hSnapAny(cl)), "the clone holds the same kinds and values at every position")
	if l, ok := cl.(List); ok {
		l.GetObject(1).Set("k", 0)
		verifAssert(c.(List).GetObject(1).GetFloat("k") == inf, "mutating the clone leaves the original unchanged")
	} else {
		cl.(Object).GetList("l").Add(1)
		verifAssert(c.(Object).GetList("l").Count() == 2, "mutating the clone leaves the original unchanged")
	}
	verifReach("end")
}

func hInfinity(neg bool) float64 {
	one, zero := 1.0, 0.0
	if neg {
		one = -1.0
	}
	return one / zero
}

// the source is itself a clone (or a clone of a clone): every generation is a deep copy of the one before
func H_C08_clone_of_clone() {
	a, b := nondetInt(), hBytesStr(1)
	var c any
	switch nondetIntRange(0, 2) {
	case 0:
		c = NewList(NewList(a), NewObject("k", b), NewList(NewList(b), NewObject("p", NewList(a))))
	case 1:
		c = NewObject("x", NewList(NewList(a), NewObject("r", b)), "y", NewObject("s", NewList(b)))
	default:
		c = NewList(a, NewList(), NewObject(), NewList(NewObject("e", NewList())))
	}
	gens := []any{c}
	for g := 0; g < 3; g++ {
		gens = append(gens, hCloneAny(gens[g]))
	}
	want := hSnapAny(c)
	for g := 1; g < len(gens); g++ {
		verifAssert(hExact(want, hSnapAny(gens[g])), "a clone of a clone has the same content")
	}
	// no container is shared between any two generations
	shared := false
	for g := 0; g < len(gens); g++ {
		for h := g + 1; h < len(gens); h++ {
			var cg, ch []any
			hContainers(gens[g], &cg)
			hContainers(gens[h], &ch)
			for _, p := range cg {
				for _, q := range ch {
					shared = shared || p == q
				}
			}
		}
	}
	verifAssert(!shared, "no container is shared between a container, its clone and the clone of its clone")
	// one mutation somewhere inside one generation leaves every other generation as it was
	g := nondetIntRange(0, len(gens)-1)
	hMutateSomewhere(gens[g])
	for h := 0; h < len(gens); h++ {
		if h != g {
			verifAssert(hExact(want, hSnapAny(gens[h])), "a mutation inside one generation of clones is invisible in every other generation")
		}
	}
	verifReach("end")
}
