package anytype

// C14 — typed views select exactly the elements of their kind, in order, each once.

var hKindsAll = []Type{TypeNil, TypeObject, TypeList, TypeString, TypeBool, TypeInt, TypeFloat}

// hElemOfKind returns a fresh symbolic element of the given kind.
func hElemOfKind(k Type) any {
	switch k {
	case TypeObject:
		return NewObject("id", nondetInt())
	case TypeList:
		return NewList(nondetInt())
	case TypeString:
		return hBytesStr(1)
	case TypeBool:
		return nondetBool()
	case TypeInt:
		return nondetInt()
	case TypeFloat:
		return hFiniteFloat()
	}
	return nil
}

func hMixedList(n int) List {
	l := NewList()
	for i := 0; i < n; i++ {
		l.Add(hElemOfKind(hKindsAll[nondetIntRange(0, 6)]))
	}
	return l
}

// user-defined containers (structs embedding List/Object, registered with Init) are elements of kind
// list / object like any other: the typed views hand them out
func H_C14_derived_container_elements() {
	x := nondetInt()
	dl := hDerivedList(x)
	do := hDerivedObject("q", x)
	l := NewList(do, x, dl, NewObject(), NewList())
	o := NewObject("a", do, "b", dl, "c", x)
	os, ls := l.ObjectSlice(), l.ListSlice()
	verifAssert(len(os) == 2 && os[0] == do && len(ls) == 2 && ls[0] == dl, "ObjectSlice / ListSlice = the objects / lists, in order, each once")
	var seenO []Object
	var seenL []List
	l.ForEachObject(func(v Object) { seenO = append(seenO, v) })
	l.ForEachList(func(v List) { seenL = append(seenL, v) })
	o.ForEachObject(func(v Object) { seenO = append(seenO, v) })
	o.ForEachList(func(v List) { seenL = append(seenL, v) })
	verifAssert(len(seenO) == 3 && seenO[0] == do && seenO[2] == do && len(seenL) == 3 && seenL[0] == dl && seenL[2] == dl, "ForEachObject / ForEachList visit exactly the objects / lists")
	fo := l.FilterObjects(func(v Object) bool { return true })
	fl := l.FilterLists(func(v List) bool { return true })
	mo := l.MapObjects(func(v Object) any { return 1 })
	ml := l.MapLists(func(v List) any { return 1 })
	verifAssert(fo.Count() == 2 && fl.Count() == 2 && mo.Count() == 2 && ml.Count() == 2, "FilterX / MapX operate on exactly the elements whose TypeOf is X")
	verifAssert(!l.AllObjects() && NewList(do, NewObject()).AllObjects() && NewList(dl).AllLists(), "AllX holds exactly when every element has kind X")
	verifAssert(l.TypeOf(0) == TypeObject && l.TypeOf(2) == TypeList && o.TypeOf("a") == TypeObject && o.TypeOf("b") == TypeList, "TypeOf reports the kind of a stored user-defined container")
	verifReach("end")
}

func hSel(snap mval, k Type) []mval {
	var out []mval
	for _, e := range snap.elem {
		if e.kind == k {
			out = append(out, e)
		}
	}
	return out
}

func hSameSeq(a, b []mval) bool {
	if len(a) != len(b) {
		return false
	}
	r := true
	for i := range a {
		r = verifAnd(r, hSameShallow(a[i], b[i]))
	}
	return r
}

func hMv(k Type, v any) mval { return hSnapValue(k, v, false) }

func H_C14_list_slices_foreach_all() {
	maxN := 3
	if verifTier() > 0 {
		maxN = 4
	}
	verifBound("LISTN", maxN)
	n := nondetIntRange(0, maxN)
	l := hMixedList(n)
	snap := hSnapList(l, false)

	// typed slices
	var got []mval
	for _, v := range l.ObjectSlice() {
		got = append(got, hMv(TypeObject, v))
	}
	verifAssert(hSameSeq(got, hSel(snap, TypeObject)), "ObjectSlice = the objects, in order, each once")
	got = nil
	for _, v := range l.ListSlice() {
		got = append(got, hMv(TypeList, v))
	}
	verifAssert(hSameSeq(got, hSel(snap, TypeList)), "ListSlice = the lists, in order, each once")
	got = nil
	for _, v := range l.StringSlice() {
		got = append(got, hMv(TypeString, v))
	}
	verifAssert(hSameSeq(got, hSel(snap, TypeString)), "StringSlice = the strings, in order, each once")
	got = nil
	for _, v := range l.BoolSlice() {
		got = append(got, hMv(TypeBool, v))
	}
	verifAssert(hSameSeq(got, hSel(snap, TypeBool)), "BoolSlice = the bools, in order, each once")
	got = nil
	for _, v := range l.IntSlice() {
		got = append(got, hMv(TypeInt, v))
	}
	verifAssert(hSameSeq(got, hSel(snap, TypeInt)), "IntSlice = the ints, in order, each once")
	got = nil
	for _, v := range l.FloatSlice() {
		got = append(got, hMv(TypeFloat, v))
	}
	verifAssert(hSameSeq(got, hSel(snap, TypeFloat)), "FloatSlice = the floats, in order, each once")

	// ForEach variants
	var log []mval
	ret := l.ForEachObject(func(x Object) { log = append(log, hMv(TypeObject, x)) })
	verifAssert(hSameSeq(log, hSel(snap, TypeObject)), "ForEachObject visits exactly the objects in order")
	verifAssert(ret == l, "ForEachObject returns the list")
	log = nil
	l.ForEachList(func(x List) { log = append(log, hMv(TypeList, x)) })
	verifAssert(hSameSeq(log, hSel(snap, TypeList)), "ForEachList visits exactly the lists in order")
	log = nil
	l.ForEachString(func(x string) { log = append(log, hMv(TypeString, x)) })
	verifAssert(hSameSeq(log, hSel(snap, TypeString)), "ForEachString visits exactly the strings in order")
	log = nil
	l.ForEachBool(func(x bool) { log = append(log, hMv(TypeBool, x)) })
	verifAssert(hSameSeq(log, hSel(snap, TypeBool)), "ForEachBool visits exactly the bools in order")
	log = nil
	l.ForEachInt(func(x int) { log = append(log, hMv(TypeInt, x)) })
	verifAssert(hSameSeq(log, hSel(snap, TypeInt)), "ForEachInt visits exactly the ints in order")
	log = nil
	l.ForEachFloat(func(x float64) { log = append(log, hMv(TypeFloat, x)) })
	verifAssert(hSameSeq(log, hSel(snap, TypeFloat)), "ForEachFloat visits exactly the floats in order")

	// untyped ForEach / ForEachValue: every element once, in order, with its index
	log = nil
	idxOK := true
	cnt := 0
	l.ForEach(func(i int, x any) {
		idxOK = idxOK && i == cnt
		cnt++
		if i >= 0 && i < n {
			log = append(log, hMv(snap.elem[i].kind, x))
		}
	})
	verifAssert(idxOK && cnt == n, "ForEach passes indices 0..n-1 in order")
	verifAssert(hSameSeq(log, snap.elem), "ForEach passes the value Get returns for each index")
	log = nil
	l.ForEachValue(func(x any) {
		if len(log) < n {
			log = append(log, hMv(snap.elem[len(log)].kind, x))
		} else {
			log = append(log, mval{})
		}
	})
	verifAssert(hSameSeq(log, snap.elem), "ForEachValue visits every element once in order")

	// All*
	cntK := func(k Type) int { return len(hSel(snap, k)) }
	verifAssert(l.AllObjects() == (cntK(TypeObject) == n), "AllObjects iff every element is an object")
	verifAssert(l.AllLists() == (cntK(TypeList) == n), "AllLists iff every element is a list")
	verifAssert(l.AllStrings() == (cntK(TypeString) == n), "AllStrings iff every element is a string")
	verifAssert(l.AllBools() == (cntK(TypeBool) == n), "AllBools iff every element is a bool")
	verifAssert(l.AllInts() == (cntK(TypeInt) == n), "AllInts iff every element is an int")
	verifAssert(l.AllFloats() == (cntK(TypeFloat) == n), "AllFloats iff every element is a float")
	verifAssert(l.AllNumeric() == (cntK(TypeInt)+cntK(TypeFloat) == n), "AllNumeric iff every element is int or float")
	verifAssert(hSameSlots(snap, hSnapList(l, false)), "typed views do not modify the list")
	verifReach("end")
}

// Map*: result = callback results in selection order; callbacks return a tag derived from the call number
func H_C14_list_map_reduce() {
	maxN := 3
	verifBound("LISTN", maxN)
	n := nondetIntRange(0, maxN)
	l := hMixedList(n)
	snap := hSnapList(l, false)
	check := func(res List, log []mval, k Type, name string) {
		sel := hSel(snap, k)
		verifAssert(hSameSeq(log, sel), name+" calls the function on exactly the elements of its kind, in order")
		ok := res.Count() == len(sel)
		for j := 0; j < res.Count() && j < len(sel); j++ {
			ok = ok && res.TypeOf(j) == TypeInt && res.GetInt(j) == 1000+j
		}
		verifAssert(ok, name+" stores the results in call order")
	}
	var log []mval
	res := l.MapObjects(func(x Object) any { log = append(log, hMv(TypeObject, x)); return 1000 + len(log) - 1 })
	check(res, log, TypeObject, "MapObjects")
	log = nil
	res = l.MapLists(func(x List) any { log = append(log, hMv(TypeList, x)); return 1000 + len(log) - 1 })
	check(res, log, TypeList, "MapLists")
	log = nil
	res = l.MapStrings(func(x string) any { log = append(log, hMv(TypeString, x)); return 1000 + len(log) - 1 })
	check(res, log, TypeString, "MapStrings")
	log = nil
	res = l.MapBools(func(x bool) any { log = append(log, hMv(TypeBool, x)); return 1000 + len(log) - 1 })
	check(res, log, TypeBool, "MapBools")
	log = nil
	res = l.MapInts(func(x int) any { log = append(log, hMv(TypeInt, x)); return 1000 + len(log) - 1 })
	check(res, log, TypeInt, "MapInts")
	log = nil
	res = l.MapFloats(func(x float64) any { log = append(log, hMv(TypeFloat, x)); return 1000 + len(log) - 1 })
	check(res, log, TypeFloat, "MapFloats")

	// untyped Map / MapValues
	log = nil
	idxOK := true
	res = l.Map(func(i int, x any) any {
		idxOK = idxOK && i == len(log)
		if i >= 0 && i < n {
			log = append(log, hMv(snap.elem[i].kind, x))
		}
		return 1000 + len(log) - 1
	})
	verifAssert(idxOK && hSameSeq(log, snap.elem), "Map visits every element once in order with its index")
	ok := res.Count() == n
	for j := 0; j < res.Count() && j < n; j++ {
		ok = ok && res.TypeOf(j) == TypeInt && res.GetInt(j) == 1000+j
	}
	verifAssert(ok, "Map stores the results in order")
	log = nil
	res = l.MapValues(func(x any) any {
		if len(log) < n {
			log = append(log, hMv(snap.elem[len(log)].kind, x))
		} else {
			log = append(log, mval{})
		}
		return 1000 + len(log) - 1
	})
	verifAssert(hSameSeq(log, snap.elem), "MapValues visits every element once in order")
	verifAssert(res.Count() == n, "MapValues yields one result per element")

	// Reduce*: left fold chain
	{
		sel := hSel(snap, TypeInt)
		init := nondetInt()
		calls := 0
		chain := true
		acc := init
		out := l.ReduceInts(init, func(a, x int) int {
			if calls < len(sel) {
				chain = verifAnd(chain, verifAnd(a == acc, x == sel[calls].i))
			}
			calls++
			acc = a*31 + x
			return acc
		})
		verifAssert(calls == len(sel), "ReduceInts calls the function once per int element")
		verifAssert(chain, "ReduceInts is the left fold over the int elements in order")
		verifAssert(out == acc, "ReduceInts returns the last accumulator")
	}
	{
		sel := hSel(snap, TypeString)
		init := hBytesStr(1)
		calls := 0
		chain := true
		acc := init
		out := l.ReduceStrings(init, func(a, x string) string {
			if calls < len(sel) {
				chain = verifAnd(chain, verifAnd(a == acc, x == sel[calls].s))
			}
			calls++
			acc = a + x
			return acc
		})
		verifAssert(calls == len(sel), "ReduceStrings calls the function once per string element")
		verifAssert(chain, "ReduceStrings is the left fold over the string elements in order")
		verifAssert(out == acc, "ReduceStrings returns the last accumulator")
	}
	{
		sel := hSel(snap, TypeFloat)
		init := hFiniteFloat()
		calls := 0
		chain := true
		acc := init
		out := l.ReduceFloats(init, func(a, x float64) float64 {
			if calls < len(sel) {
				chain = verifAnd(chain, verifAnd(verifFloatBits(a) == verifFloatBits(acc), verifFloatBits(x) == verifFloatBits(sel[calls].f)))
			}
			calls++
			acc = x
			return acc
		})
		verifAssert(calls == len(sel), "ReduceFloats calls the function once per float element")
		verifAssert(chain, "ReduceFloats is the left fold over the float elements in order")
		verifAssert(verifFloatBits(out) == verifFloatBits(acc), "ReduceFloats returns the last accumulator")
	}
	{
		calls := 0
		chain := true
		var acc any = 7
		out := l.Reduce(7, func(a, x any) any {
			ai, isInt := a.(int)
			if calls < n {
				chain = verifAnd(chain, verifAnd(isInt && ai == acc.(int), hSameShallow(hMv(snap.elem[calls].kind, x), snap.elem[calls])))
			}
			calls++
			acc = 100 + calls
			return acc
		})
		verifAssert(calls == n, "Reduce calls the function once per element")
		verifAssert(chain, "Reduce is the left fold over all elements in order")
		verifAssert(out == acc, "Reduce returns the last accumulator")
	}
	verifAssert(hSameSlots(snap, hSnapList(l, false)), "typed views do not modify the list")
	verifReach("end")
}

// Filter*: keeps exactly the elements of the kind for which the predicate held, in order
func H_C14_list_filter() {
	maxN := 3
	verifBound("LISTN", maxN)
	n := nondetIntRange(0, maxN)
	l := hMixedList(n)
	snap := hSnapList(l, false)
	which := nondetIntRange(0, 5)
	var log, keep []mval
	dec := func(m mval) bool {
		log = append(log, m)
		d := nondetBool()
		if d {
			keep = append(keep, m)
		}
		return d
	}
	var res List
	var k Type
	switch which {
	case 0:
		k = TypeObject
		res = l.FilterObjects(func(x Object) bool { return dec(hMv(TypeObject, x)) })
	case 1:
		k = TypeList
		res = l.FilterLists(func(x List) bool { return dec(hMv(TypeList, x)) })
	case 2:
		k = TypeString
		res = l.FilterStrings(func(x string) bool { return dec(hMv(TypeString, x)) })
	case 3:
		k = TypeInt
		res = l.FilterInts(func(x int) bool { return dec(hMv(TypeInt, x)) })
	case 4:
		k = TypeFloat
		res = l.FilterFloats(func(x float64) bool { return dec(hMv(TypeFloat, x)) })
	default:
		k = TypeUndefined
		res = l.Filter(func(x any) bool {
			if len(log) < n {
				return dec(hMv(snap.elem[len(log)].kind, x))
			}
			return dec(mval{})
		})
	}
	if k == TypeUndefined {
		verifAssert(hSameSeq(log, snap.elem), "Filter calls the predicate on every element once in order")
	} else {
		verifAssert(hSameSeq(log, hSel(snap, k)), "FilterX calls the predicate on exactly the elements of its kind, in order")
	}
	verifAssert(hSameSeq(hSnapList(res, false).elem, keep), "FilterX keeps exactly the accepted elements, in order, each once")
	verifAssert(hSameSlots(snap, hSnapList(l, false)), "Filter does not modify the list")
	verifReach("end")
}

// objects: ForEach/Map and typed variants visit exactly the fields (of that kind), each once;
// Map variants store the result under the same key. Order-insensitive.
func H_C14_object() {
	maxN := 2
	if verifTier() > 0 {
		maxN = 3
	}
	verifBound("OBJN", maxN)
	n := nondetIntRange(0, maxN)
	keys := []string{"a", "b", "c"}[:n]
	o := NewObject()
	for i := 0; i < n; i++ {
		o.Set(keys[i], hElemOfKind(hKindsAll[nondetIntRange(0, 6)]))
	}
	want := make([]mval, n)
	for i := 0; i < n; i++ {
		want[i] = hSnapValue(o.TypeOf(keys[i]), o.Get(keys[i]), false)
	}
	idx := func(k string) int {
		for i := range keys {
			if keys[i] == k {
				return i
			}
		}
		return -1
	}
	// ForEach: each key once with its value
	seen := make([]int, n)
	good := true
	ret := o.ForEach(func(k string, v any) {
		i := idx(k)
		if i < 0 {
			good = false
			return
		}
		seen[i]++
		good = verifAnd(good, hSameShallow(hMv(want[i].kind, v), want[i]))
	})
	for i := 0; i < n; i++ {
		good = good && seen[i] == 1
	}
	verifAssert(good, "Object.ForEach visits every field exactly once with its key and value")
	verifAssert(ret == o, "Object.ForEach returns the object")

	// typed ForEach: multiset of values of that kind
	countIn := func(log []mval, m mval) int {
		c := 0
		for _, e := range log {
			c += verifIteInt(hSameShallow(e, m), 1, 0)
		}
		return c
	}
	sameMultiset := func(log []mval, k Type) bool {
		var sel []mval
		for _, w := range want {
			if w.kind == k {
				sel = append(sel, w)
			}
		}
		if len(sel) != len(log) {
			return false
		}
		r := true
		for _, m := range sel {
			r = verifAnd(r, countIn(log, m) == countIn(sel, m))
		}
		return r
	}
	var log []mval
	o.ForEachObject(func(x Object) { log = append(log, hMv(TypeObject, x)) })
	verifAssert(sameMultiset(log, TypeObject), "Object.ForEachObject visits exactly the object fields, each once")
	log = nil
	o.ForEachList(func(x List) { log = append(log, hMv(TypeList, x)) })
	verifAssert(sameMultiset(log, TypeList), "Object.ForEachList visits exactly the list fields, each once")
	log = nil
	o.ForEachString(func(x string) { log = append(log, hMv(TypeString, x)) })
	verifAssert(sameMultiset(log, TypeString), "Object.ForEachString visits exactly the string fields, each once")
	log = nil
	o.ForEachBool(func(x bool) { log = append(log, hMv(TypeBool, x)) })
	verifAssert(sameMultiset(log, TypeBool), "Object.ForEachBool visits exactly the bool fields, each once")
	log = nil
	o.ForEachInt(func(x int) { log = append(log, hMv(TypeInt, x)) })
	verifAssert(sameMultiset(log, TypeInt), "Object.ForEachInt visits exactly the int fields, each once")
	log = nil
	o.ForEachFloat(func(x float64) { log = append(log, hMv(TypeFloat, x)) })
	verifAssert(sameMultiset(log, TypeFloat), "Object.ForEachFloat visits exactly the float fields, each once")
	log = nil
	cnt := 0
	o.ForEachValue(func(x any) { cnt++ })
	verifAssert(cnt == n, "Object.ForEachValue visits every field once")

	// Map variants: result under the same key, only fields of the kind
	checkMap := func(res Object, k Type, name string) {
		ok := true
		c := 0
		for i := 0; i < n; i++ {
			if k == TypeUndefined || want[i].kind == k {
				c++
				ok = ok && res.TypeOf(keys[i]) == TypeInt && res.GetInt(keys[i]) == 500+i
			} else {
				ok = ok && !res.KeyExists(keys[i])
			}
		}
		verifAssert(ok && res.Count() == c, name+" stores each result under the key of its field, for exactly the fields of its kind")
	}
	tagOf := func(m mval) int {
		// identify the field by its value: keys map to distinct containers / we return index through equality search
		return 0
	}
	_ = tagOf
	checkMap(o.Map(func(k string, v any) any { return 500 + idx(k) }), TypeUndefined, "Object.Map")
	// for typed variants the callback does not get the key: return a tag that depends on the value's identity;
	// use one distinguished field per run: pick field p and return 500+p for its value, else 500+other
	for kidx := 1; kidx <= 6; kidx++ {
		k := hKindsAll[kidx]
		var sel []int
		for i := 0; i < n; i++ {
			if want[i].kind == k {
				sel = append(sel, i)
			}
		}
		// the function returns its argument: the result under a key must then be that field's own value
		// (a result stored under another field's key shows as soon as two fields of the kind differ)
		calls := 0
		var res Object
		switch k {
		case TypeObject:
			res = o.MapObjects(func(x Object) any { calls++; return x })
		case TypeList:
			res = o.MapLists(func(x List) any { calls++; return x })
		case TypeString:
			res = o.MapStrings(func(x string) any { calls++; return x })
		case TypeBool:
			res = o.MapBools(func(x bool) any { calls++; return x })
		case TypeInt:
			res = o.MapInts(func(x int) any { calls++; return x })
		default:
			res = o.MapFloats(func(x float64) any { calls++; return x })
		}
		ok := calls == len(sel) && res.Count() == len(sel)
		for _, i := range sel {
			ok = ok && res.KeyExists(keys[i])
			if res.KeyExists(keys[i]) {
				ok = verifAnd(ok, hSameShallow(hSnapValue(res.TypeOf(keys[i]), res.Get(keys[i]), false), want[i]))
			}
		}
		verifAssert(ok, "Object.MapX calls the function once per field of its kind and stores the result under the same key")
	}
	res := o.MapValues(func(v any) any { return 78 })
	ok := res.Count() == n
	for i := 0; i < n; i++ {
		ok = ok && res.TypeOf(keys[i]) == TypeInt && res.GetInt(keys[i]) == 78
	}
	verifAssert(ok, "Object.MapValues stores a result under every key")
	for i := 0; i < n; i++ {
		verifAssert(hSameShallow(hSnapValue(o.TypeOf(keys[i]), o.Get(keys[i]), false), want[i]), "typed views do not modify the object")
	}
	verifAssert(o.Count() == n, "typed views do not modify the object")
	verifReach("end")
}

// Map variants whose function returns nil for some elements: the result still has one entry per selected
// element (a nil entry), in order / under the same key
func H_C14_map_results_may_be_nil() {
	x := nondetInt()
	l := NewList(x, "s", 2, true, 1.5, 3)
	o := NewObject("a", x, "b", 2, "c", "s")
	nilAt := nondetIntRange(0, 2)
	k := 0
	ml := l.MapInts(func(v int) any {
		k++
		if k-1 == nilAt {
			return nil
		}
		return v
	})
	verifAssert(ml.Count() == 3 && ml.TypeOf(nilAt) == TypeNil, "MapX yields one result per element of kind X, in order, whatever the function returns")
	k = 0
	mv := l.MapValues(func(v any) any {
		k++
		if k-1 == nilAt {
			return nil
		}
		return 1
	})
	verifAssert(mv.Count() == 6 && mv.TypeOf(nilAt) == TypeNil, "MapValues yields one result per element")
	mo := o.MapInts(func(v int) any { return nil })
	verifAssert(mo.Count() == 2 && mo.KeyExists("a") && mo.KeyExists("b") && mo.TypeOf("a") == TypeNil, "object MapX stores the result under the same key, whatever the function returns")
	ms := l.MapStrings(func(v string) any { return nil })
	mb := l.MapBools(func(v bool) any { return nil })
	mf := l.MapFloats(func(v float64) any { return nil })
	verifAssert(ms.Count() == 1 && mb.Count() == 1 && mf.Count() == 1, "MapX yields one result per element of kind X")
	verifReach("end")
}

// Reduce with every kind of initial accumulator (nil included): the function sees the initial value first
// and is called once per element, whatever the initial value is.
func H_C14_reduce_initial_values() {
	verifBound("LISTN", 3)
	n := nondetIntRange(0, 3)
	l := hMixedList(n)
	snap := hSnapList(l, false)
	var init any
	switch nondetIntRange(0, 4) {
	case 0:
		init = nil
	case 1:
		init = nondetInt()
	case 2:
		init = ""
	case 3:
		init = NewList()
	default:
		init = false
	}
	calls := 0
	firstOK, elemsOK := true, true
	var acc any = init
	out := l.Reduce(init, func(a, x any) any {
		if calls == 0 {
			firstOK = a == init
		}
		if calls < n {
			elemsOK = verifAnd(elemsOK, hSameShallow(hMv(snap.elem[calls].kind, x), snap.elem[calls]))
		}
		calls++
		acc = 100 + calls
		return acc
	})
	verifAssert(calls == n, "Reduce calls the function once per element")
	verifAssert(firstOK && elemsOK, "Reduce is the left fold over all elements in order")
	verifAssert(out == acc, "Reduce returns the last accumulator")
	verifReach("end")
}

// typed views called from inside the callback of another typed view (on the same and on another list): the
// outer call's visits and results are what they are without the inner calls
func H_C14_nested_calls() {
	x, y, z := nondetInt(), nondetInt(), nondetInt()
	a := NewList(x, "s", y, NewList(z, z), z)
	b := NewList(y, z, x, x)
	for round := 0; round < 2; round++ { // the second round runs after the first has been through every path once
		var seen []int
		res := a.MapInts(func(v int) any {
			seen = append(seen, v)
			in1 := b.MapInts(func(w int) any { return w })
			in2 := a.Map(func(i int, w any) any { return i })
			a.ForEachInt(func(w int) {})
			b.FilterInts(func(w int) bool { return true })
			return NewList(in1.Count(), in2.Count(), v)
		})
		ok := len(seen) == 3 && seen[0] == x && seen[1] == y && seen[2] == z && res.Count() == 3
		for j := 0; ok && j < 3; j++ {
			r, isL := res.Get(j).(List)
			ok = isL && r.Count() == 3 && r.GetInt(0) == 4 && r.GetInt(1) == 5 && r.GetInt(2) == seen[j]
		}
		verifAssert(ok, "MapInts stores the results in call order")
		outer := a.Map(func(i int, v any) any {
			if l, isL := v.(List); isL {
				return l.MapInts(func(w int) any { return w })
			}
			return a.MapStrings(func(s string) any { return i })
		})
		ok = outer.Count() == 5
		for j := 0; ok && j < 5; j++ {
			r, isL := outer.Get(j).(List)
			if j == 3 {
				ok = isL && r.Count() == 2 && r.GetInt(0) == z && r.GetInt(1) == z
			} else {
				ok = isL && r.Count() == 1 && r.GetInt(0) == j
			}
		}
		verifAssert(ok, "Map stores the results in order")
	}
	verifAssert(a.Count() == 5 && b.Count() == 4, "typed views do not modify the list")
	verifReach("end")
}


// a callback that rewrites a not yet visited element of the list being walked (Replace: the length does not
// change): every visit still gets the index and the value Get returns at that moment
func H_C14_callback_rewrites_later_element() {
	x, y := nondetInt(), nondetInt()
	which := nondetIntRange(0, 2)
	l := NewList(x, "s", y, nil)
	ok, calls := true, 0
	visit := func(i int, v any) {
		ok = ok && i == calls && i < l.Count() && v == l.Get(i)
		calls++
		if i+1 < l.Count() {
			l.Replace(i+1, 1000+i)
		}
	}
	switch which {
	case 0:
		l.ForEach(visit)
	case 1:
		l.ForEachValue(func(v any) { visit(calls, v) })
	default:
		l.Map(func(i int, v any) any { visit(i, v); return nil })
	}
	verifAssert(ok && calls == 4, "ForEach/Map visit every element once in order with its index and the value Get returns")
	verifAssert(l.Count() == 4 && l.GetInt(0) == x && l.GetInt(1) == 1000 && l.GetInt(2) == 1001 && l.GetInt(3) == 1002, "the list holds what the callback wrote")
	verifReach("end")
}

// AllX after a history: a homogeneous list born from a typed Go slice (or NewListOf / NewList), then ONE mutation
// that brings in an element of another kind (Insert at the front, in the middle or at the end, Replace, Add, SetTF)
// or removes the odd one again; AllX must describe the elements as they are now
func H_C14_allx_after_mutations() {
	x := nondetInt()
	var l List
	kind := nondetIntRange(0, 7)
	switch kind {
	case 0:
		l = NewListFrom([]int{x, 2, 3})
	case 1:
		l = NewListFrom([]string{"a", "b", "c"})
	case 2:
		l = NewListFrom([]float64{1.5, 2.5, 3.5})
	case 3:
		l = NewListFrom([]bool{true, false, true})
	case 4:
		l = NewListFrom([]Object{NewObject(), NewObject(), NewObject()})
	case 5:
		l = NewListFrom([]List{NewList(), NewList(), NewList()})
	case 6:
		l = NewListOf(x, 3)
	default:
		l = NewList([]int{x, 2, 3}).GetList(0) // a typed slice converted while nested
	}
	var odd any = "odd"
	if kind == 1 {
		odd = 7
	}
	if nondetBool() {
		odd = nil
	}
	check := func(when string) {
		n := l.Count()
		cnt := make([]int, 8)
		for i := 0; i < n; i++ {
			cnt[int(l.TypeOf(i))]++
		}
		ok := l.AllInts() == (cnt[TypeInt] == n) && l.AllStrings() == (cnt[TypeString] == n) &&
			l.AllFloats() == (cnt[TypeFloat] == n) && l.AllBools() == (cnt[TypeBool] == n) &&
			l.AllObjects() == (cnt[TypeObject] == n) && l.AllLists() == (cnt[TypeList] == n) &&
			l.AllNumeric() == (cnt[TypeInt]+cnt[TypeFloat] == n)
		verifAssert(ok, "AllX holds exactly when every element has kind X ("+when+")")
		verifAssert(len(l.IntSlice()) == cnt[TypeInt] && len(l.StringSlice()) == cnt[TypeString], "the typed slices hold exactly the elements of their kind ("+when+")")
	}
	check("fresh")
	at := 0
	switch nondetIntRange(0, 6) {
	case 0:
		l.Insert(0, odd)
	case 1:
		l.Insert(1, odd)
		at = 1
	case 2:
		l.Insert(3, odd)
		at = 3
	case 3:
		l.Replace(2, odd)
		at = 2
	case 4:
		l.Add(odd)
		at = 3
	case 5:
		l.SetTF("#1", odd)
		at = 1
	default:
		l.SetTF("#3", odd)
		at = 3
	}
	check("after one mutation")
	if nondetBool() {
		l.Delete(at)
	} else {
		l.Replace(at, l.Get((at+1)%3))
	}
	check("after the odd element is gone again")
	verifReach("end")
}
