package anytype

// C03 — the parser reads every valid JSON document exactly as a reference decoder does.
// Documents are derivations of the RFC 8259 grammar with symbolic terminals; the expected tree is
// built from the same symbolic variables.

import "strconv"

// One symbolic feature per document keeps the case split linear: either one symbolic whitespace
// byte in slot idx, or one symbolic string character in string idx (value or key), or one number
// with symbolic digits at scalar position idx; everything else is concrete (and varied by position).
type hDocGen struct {
	mode    int // 0 none, 1 whitespace slot, 2 string, 3 number
	idx     int
	wsSeen  int
	strSeen int
	valSeen int
	used    bool
}

func (g *hDocGen) ws() string {
	k := g.wsSeen
	g.wsSeen++
	if g.mode == 0 {
		return "\r\n \t"
	}
	if g.mode == 1 && g.idx == k {
		g.used = true
		return hWS()
	}
	return ""
}

var hConcStr = [][2]string{{`"a\/b"`, "a/b"}, {`""`, ""}, {`"\u00e9\n"`, "\u00e9\n"}, {`"\ud83d\ude00x"`, "\U0001F600x"}, {"\"\u00e9\ufffd\"", "\u00e9\ufffd"}}

// a hex digit of a given class: 0 = decimal digit, 1 = a-f, 2 = A-F, 3 = any
func hHexDigitC(cls int) byte {
	c := nondetByte()
	switch cls {
	case 0:
		verifAssume(verifAnd(c >= '0', c <= '9'))
	case 1:
		verifAssume(verifAnd(c >= 'a', c <= 'f'))
	case 2:
		verifAssume(verifAnd(c >= 'A', c <= 'F'))
	default:
		verifAssume(verifOr(verifAnd(c >= '0', c <= '9'), verifOr(verifAnd(c >= 'a', c <= 'f'), verifAnd(c >= 'A', c <= 'F'))))
	}
	return c
}

// the numeric value of a hex digit known to be of class cls (no case split needed)
func hHexValC(c byte, cls int) int {
	switch cls {
	case 0:
		return int(c - '0')
	case 1:
		return int(c-'a') + 10
	case 2:
		return int(c-'A') + 10
	}
	v, _ := refHex(c)
	return v
}

// four hex digits; quick tier: one class for all four (chosen), thorough: each digit any class
func hHex4() ([]byte, int) {
	h := make([]byte, 4)
	v := 0
	if verifTier() > 0 {
		for i := range h {
			h[i] = hHexDigitC(3)
			v = v<<4 | hHexValC(h[i], 3)
		}
		return h, v
	}
	cls := nondetIntRange(0, 2)
	for i := range h {
		h[i] = hHexDigitC(cls)
		v = v<<4 | hHexValC(h[i], cls)
	}
	return h, v
}

// a surrogate half: first digit d/D, second digit from lo..lo+3, two free digits
func hSurrogate(lo int) ([]byte, int) {
	upper := nondetIntRange(0, 1) == 1
	h := make([]byte, 4)
	h[0] = 'd'
	if upper {
		h[0] = 'D'
	}
	k := nondetIntRange(0, 3)
	second := lo + k // 8..b or c..f
	if second < 10 {
		h[1] = byte('0' + second)
	} else if upper {
		h[1] = byte('A' + second - 10)
	} else {
		h[1] = byte('a' + second - 10)
	}
	cls := 0
	if nondetIntRange(0, 1) == 1 {
		cls = 1
		if upper {
			cls = 2
		}
	}
	h[2], h[3] = hHexDigitC(cls), hHexDigitC(cls)
	v := 0xD000 | second<<8 | hHexValC(h[2], cls)<<4 | hHexValC(h[3], cls)
	return h, v
}

// one string character in one of its legal spellings; returns (text, decoded bytes)
func (g *hDocGen) strChar() (string, string) {
	switch nondetIntRange(0, 3) {
	case 0: // raw: any scalar value >= 0x20 except '"' and '\'
		r := hValidRune()
		verifAssume(r >= 0x20)
		verifAssume(verifAnd(r != '"', r != '\\'))
		s := string(r)
		return s, s
	case 1: // simple escape
		x := nondetByte()
		var dec byte
		switch nondetIntRange(0, 7) {
		case 0:
			verifAssume(x == '"')
			dec = '"'
		case 1:
			verifAssume(x == '\\')
			dec = '\\'
		case 2:
			verifAssume(x == '/')
			dec = '/'
		case 3:
			verifAssume(x == 'b')
			dec = '\b'
		case 4:
			verifAssume(x == 'f')
			dec = '\f'
		case 5:
			verifAssume(x == 'n')
			dec = '\n'
		case 6:
			verifAssume(x == 'r')
			dec = '\r'
		default:
			verifAssume(x == 't')
			dec = '\t'
		}
		return "\\" + string([]byte{x}), string([]byte{dec})
	case 2: // \uXXXX, not a surrogate
		h, v := hHex4()
		verifAssume(verifOr(v < 0xD800, v > 0xDFFF))
		return "\\u" + string(h), string(rune(v))
	default: // surrogate pair \uD8xx-\uDBxx \uDCxx-\uDFxx
		h, hv := hSurrogate(8)
		l, lv := hSurrogate(12)
		r := rune(0x10000 + (hv-0xD800)<<10 + (lv - 0xDC00))
		return "\\u" + string(h) + "\\u" + string(l), string(r)
	}
}

func (g *hDocGen) str() (string, string) {
	k := g.strSeen
	g.strSeen++
	if g.mode == 2 && g.idx == k {
		g.used = true
		t, d := g.strChar()
		if nondetIntRange(0, 1) == 1 {
			return "\"x" + t + "y\"", "x" + d + "y"
		}
		return "\"" + t + "\"", d
	}
	c := hConcStr[k%len(hConcStr)]
	return c[0], c[1]
}

func hDigit(lo byte) byte {
	d := nondetByte()
	verifAssume(verifAnd(d >= lo, d <= '9'))
	return d
}

// a number literal from a menu of spellings; returns text and expected value
func (g *hDocGen) num() (string, mval) {
	d1, d2, d3 := hDigit('1'), hDigit('0'), hDigit('0')
	v1, v2, v3 := int(d1-'0'), int(d2-'0'), int(d3-'0')
	var t string
	isInt := true
	iv := 0
	switch nondetIntRange(0, 9) {
	case 0:
		t, iv = "0", 0
	case 1:
		t, iv = string([]byte{d1}), v1
	case 2:
		t, iv = string([]byte{d1, d2, d3}), v1*100+v2*10+v3
	case 3:
		t, iv = "-"+string([]byte{d1, d2}), -(v1*10 + v2)
	case 4:
		t, isInt = string([]byte{d1})+"."+string([]byte{d2}), false
	case 5:
		t, isInt = "-0."+string([]byte{d2, d3}), false
	case 6:
		e := nondetByte()
		verifAssume(verifOr(e == 'e', e == 'E'))
		t, isInt = string([]byte{d1, e, d2}), false
	case 7:
		e := nondetByte()
		verifAssume(verifOr(e == 'e', e == 'E'))
		s := nondetByte()
		verifAssume(verifOr(s == '+', s == '-'))
		t, isInt = string([]byte{d1, '.', d2, e, s, d3}), false
	case 8:
		t, isInt = "0e"+string([]byte{d2}), false
	default:
		t, isInt = "9223372036854775808", false // one beyond MaxInt: a float
	}
	if isInt {
		return t, mval{kind: TypeInt, i: iv}
	}
	return t, mval{kind: TypeFloat, f: verifPF(t)}
}

func (g *hDocGen) scalar() (string, mval) {
	k := g.valSeen
	g.valSeen++
	if g.mode == 3 && g.idx == k {
		g.used = true
		return g.num()
	}
	switch (k + g.idx) % 5 {
	case 0:
		t, d := g.str()
		return t, mval{kind: TypeString, s: d}
	case 1:
		return "-12", mval{kind: TypeInt, i: -12}
	case 2:
		return "null", mval{kind: TypeNil}
	case 3:
		return "2.5E+1", mval{kind: TypeFloat, f: verifPF("2.5E+1")}
	default:
		if k%2 == 0 {
			return "true", mval{kind: TypeBool, b: true}
		}
		return "false", mval{kind: TypeBool, b: false}
	}
}

func (g *hDocGen) key() (string, string) { return g.str() }

// mSetKey: last duplicate wins
func mSetKey(m *mval, k string, v mval) {
	if j := mFindKey(*m, k); j >= 0 {
		m.elem[j] = v
		return
	}
	m.keys = append(m.keys, k)
	m.elem = append(m.elem, v)
}

func (g *hDocGen) doc(isList bool, shape int) (string, mval) {
	w := g.ws
	if isList {
		switch shape {
		case 0:
			return w() + "[" + w() + "]" + w(), mval{kind: TypeList}
		case 1:
			t, v := g.scalar()
			return "[" + w() + t + w() + "]", mval{kind: TypeList, elem: []mval{v}}
		case 2:
			t1, v1 := g.scalar()
			t2, v2 := g.scalar()
			return "[" + t1 + w() + "," + w() + t2 + "]", mval{kind: TypeList, elem: []mval{v1, v2}}
		case 3:
			t, v := g.scalar()
			return "[" + w() + "[" + w() + t + w() + "]" + w() + "," + "[" + "]" + "]", mval{kind: TypeList, elem: []mval{{kind: TypeList, elem: []mval{v}}, {kind: TypeList}}}
		case 4:
			kt, kd := g.key()
			t, v := g.scalar()
			o := mval{kind: TypeObject, keys: []string{kd}, elem: []mval{v}}
			return "[" + w() + "{" + w() + kt + w() + ":" + w() + t + w() + "}" + w() + "]", mval{kind: TypeList, elem: []mval{o}}
		default:
			t, v := g.scalar()
			return "[" + "{" + "}" + w() + "," + w() + t + "," + "[" + "[" + "]" + "]" + "]", mval{kind: TypeList, elem: []mval{{kind: TypeObject}, v, {kind: TypeList, elem: []mval{{kind: TypeList}}}}}
		}
	}
	switch shape {
	case 0:
		return w() + "{" + w() + "}" + w(), mval{kind: TypeObject}
	case 1:
		kt, kd := g.key()
		t, v := g.scalar()
		return "{" + w() + kt + w() + ":" + w() + t + w() + "}", mval{kind: TypeObject, keys: []string{kd}, elem: []mval{v}}
	case 2:
		k1t, k1d := g.key()
		k2t, k2d := g.key() // may equal the first key: last duplicate wins
		t1, v1 := g.scalar()
		t2, v2 := g.scalar()
		m := mval{kind: TypeObject}
		mSetKey(&m, k1d, v1)
		mSetKey(&m, k2d, v2)
		return "{" + k1t + ":" + t1 + w() + "," + w() + k2t + ":" + t2 + "}", m
	case 3:
		kt, kd := g.key()
		t, v := g.scalar()
		inner := mval{kind: TypeObject, keys: []string{kd}, elem: []mval{v}}
		return "{" + kt + ":" + w() + "{" + w() + kt + w() + ":" + t + w() + "}" + w() + "}", mval{kind: TypeObject, keys: []string{kd}, elem: []mval{inner}}
	case 4:
		kt, kd := g.key()
		t, v := g.scalar()
		return "{" + kt + w() + ":" + w() + "[" + w() + t + w() + "," + "[" + "]" + w() + "]" + w() + "}", mval{kind: TypeObject, keys: []string{kd}, elem: []mval{{kind: TypeList, elem: []mval{v, {kind: TypeList}}}}}
	default:
		k1t, k1d := g.key()
		t, v := g.scalar()
		m := mval{kind: TypeObject}
		mSetKey(&m, k1d, mval{kind: TypeList})
		mSetKey(&m, "z", mval{kind: TypeObject})
		mSetKey(&m, "y", v)
		verifAssume(verifAnd(k1d != "z", k1d != "y"))
		return "{" + k1t + ":" + "[" + "]" + w() + "," + `"z"` + ":" + "{" + "}" + "," + w() + `"y"` + ":" + t + "}", m
	}
}

func hCheckDoc(isList bool, text string, want mval) {
	ref, rok := refParse(text)
	verifAssert(rok, "the generated document is valid RFC 8259 (oracle self-check)")
	if rok {
		verifAssert(hExact(want, ref), "the reference decoder reads the expected tree (oracle self-check)")
	}
	c, err, p := hParseAny(isList, text)
	verifAssert(!p, "parsing a valid document does not panic")
	verifAssert(err == nil && c != nil, "parsing a valid document succeeds")
	if err == nil && c != nil {
		verifAssert(hExact(want, hSnapAny(c)), "the parser yields the same tree as the reference decoder (nesting, order, last duplicate key, byte-identical strings, ints, floats)")
	}
}

func H_C03_documents() {
	verifBound("SYMBOLIC_FEATURES_PER_DOC", 1)
	verifBound("SHAPES", 12)
	g := &hDocGen{mode: nondetIntRange(0, 3), idx: nondetIntRange(0, 7)}
	isList := nondetIntRange(0, 1) == 1
	shape := nondetIntRange(0, 5)
	text, want := g.doc(isList, shape)
	if g.mode != 0 && !g.used {
		verifAssume(false) // this shape has no such slot
	}
	if g.mode == 0 && g.idx > 4 {
		verifAssume(false)
	}
	hCheckDoc(isList, text, want)
	verifReach("end")
}

// strings of two characters: one in any legal spelling (symbolic), the neighbour from a menu of
// concrete spellings, in both orders (adjacent escapes, escape next to raw, pair next to escape)
func H_C03_two_char_strings() {
	verifBound("STRCHARS_PAIR", 2)
	g := &hDocGen{}
	t1, d1 := g.strChar()
	menu := [][2]string{{"", ""}, {"a", "a"}, {`\n`, "\n"}, {`\/`, "/"}, {`\u00E9`, "\u00e9"}, {`\uD83D\uDE00`, "\U0001F600"}, {"\u00e9", "\u00e9"}, {`\\`, "\\"}, {`\"`, "\""}}
	m := menu[nondetIntRange(0, len(menu)-1)]
	var text, dec string
	if nondetIntRange(0, 1) == 0 {
		text, dec = t1+m[0], d1+m[1]
	} else {
		text, dec = m[0]+t1, m[1]+d1
	}
	hCheckDoc(true, "[\""+text+"\"]", mval{kind: TypeList, elem: []mval{{kind: TypeString, s: dec}}})
	verifReach("end")
}

// every integer literal that fits the platform int: the canonical decimal spelling of every int
// (digits by the Itoa contract, i.e. fresh digit bytes tied to x by the positional sum) is read back
// as the int x — by the real parser and by the reference decoder. "-0" is the int 0.
func H_C03_int_literals() {
	verifBound("INTDIG", 19)
	x := nondetInt()
	t := strconv.Itoa(x)
	want := mval{kind: TypeInt, i: x}
	if nondetIntRange(0, 3) == 3 {
		t, want = "-0", mval{kind: TypeInt, i: 0}
	}
	// (the reference decoder's own reading of long digit strings is exercised by H_C03_documents; here
	// the expected value is x by construction, so only the real parser is run)
	isList := nondetIntRange(0, 1) == 0
	var text string
	var wantDoc mval
	if isList {
		text, wantDoc = "[ "+t+"\n]", mval{kind: TypeList, elem: []mval{want}}
	} else {
		text, wantDoc = "{\"k\":"+t+"}", mval{kind: TypeObject, keys: []string{"k"}, elem: []mval{want}}
	}
	c, err, p := hParseAny(isList, text)
	verifAssert(!p, "parsing a valid document does not panic")
	verifAssert(err == nil && c != nil, "parsing a valid document succeeds")
	if err == nil && c != nil {
		verifAssert(hExact(wantDoc, hSnapAny(c)), "an integer literal that fits the platform int becomes an int of that value")
	}
	verifReach("end")
}

// duplicate keys of every kind combination (the last one wins): a scalar first and a container later, a
// container first and a scalar later, two containers
func H_C03_duplicate_keys_mixed_kinds() {
	vals := []string{`1`, `"s"`, `null`, `{}`, `{"q":2}`, `[]`, `[3]`}
	wants := []mval{{kind: TypeInt, i: 1}, {kind: TypeString, s: "s"}, {kind: TypeNil},
		{kind: TypeObject}, {kind: TypeObject, keys: []string{"q"}, elem: []mval{{kind: TypeInt, i: 2}}},
		{kind: TypeList}, {kind: TypeList, elem: []mval{{kind: TypeInt, i: 3}}}}
	a := nondetIntRange(0, len(vals)-1)
	b := nondetIntRange(0, len(vals)-1)
	k := hAscii(nondetIntRange(0, 1)) // the empty key is a legal key
	if len(k) == 1 {
		verifAssume(verifAnd(k[0] != '"', k[0] != '\\'))
	}
	text := `{"` + k + `":` + vals[a] + `,"z":0,"` + k + `":` + vals[b] + `}`
	want := mval{kind: TypeObject}
	if k == "z" {
		want.keys, want.elem = []string{"z"}, []mval{wants[b]}
	} else {
		want.keys, want.elem = []string{k, "z"}, []mval{wants[b], {kind: TypeInt, i: 0}}
	}
	hCheckDoc(false, text, want)
	verifReach("end")
}
