package anytype

// C02 — String() is standard JSON that an independent decoder reads as the same data.

func hStringAny(c any) string {
	switch x := c.(type) {
	case List:
		return x.String()
	case Object:
		return x.String()
	}
	return ""
}

// one arbitrary Unicode scalar value as string value and as key
func H_C02_string_token() {
	verifBound("STRRUNES", 1)
	s := string(hValidRune())
	var c any
	var want mval
	if nondetIntRange(0, 1) == 0 {
		c = NewList(s)
		want = mval{kind: TypeList, elem: []mval{{kind: TypeString, s: s}}}
	} else {
		c = NewObject(s, true)
		want = mval{kind: TypeObject, keys: []string{s}, elem: []mval{{kind: TypeBool, b: true}}}
	}
	out := hStringAny(c)
	got, ok := refParse(out)
	verifAssert(ok, "String() of a container holding any valid-UTF-8 string is a syntactically valid RFC 8259 text")
	if ok {
		verifAssert(hExact(want, got), "a standards-conforming decoder recovers byte-identical strings and keys")
	}
	verifReach("end")
}

// two-rune strings from the interesting classes (quote, backslash, control, DEL, astral)
func H_C02_string_pairs() {
	verifBound("STRRUNES_PAIR", 2)
	pick := func() rune {
		switch nondetIntRange(0, 4) {
		case 0:
			return '"'
		case 1:
			return '\\'
		case 2:
			r := nondetRune()
			verifAssume(verifAnd(r >= 0, r < 0x20))
			return r
		case 3:
			r := nondetRune()
			verifAssume(verifAnd(r >= 0x7f, r < 0x100))
			return r
		default:
			r := nondetRune()
			verifAssume(verifAnd(r >= 0x2028, r <= 0x2029))
			return r
		}
	}
	s := string(pick()) + string(pick())
	out := NewList(s).String()
	got, ok := refParse(out)
	verifAssert(ok, "String() of a container holding any valid-UTF-8 string is a syntactically valid RFC 8259 text")
	if ok {
		verifAssert(hExact(mval{kind: TypeList, elem: []mval{{kind: TypeString, s: s}}}, got), "a standards-conforming decoder recovers byte-identical strings and keys")
	}
	verifReach("end")
}

// number tokens: every int; every finite float (shape + round-trip contract for the digits)
func H_C02_number_tokens() {
	verifBound("INTDIG", 19)
	var c List
	var want mval
	if nondetIntRange(0, 1) == 0 {
		x := nondetInt()
		c = NewList(x)
		want = mval{kind: TypeInt, i: x}
	} else {
		f := hFiniteFloat()
		c = NewList(f)
		want = mval{kind: TypeFloat, f: f}
	}
	out := c.String()
	got, ok := refParse(out)
	verifAssert(ok, "String() of a container holding a number is a syntactically valid RFC 8259 text")
	if ok && len(got.elem) == 1 {
		g := got.elem[0]
		if want.kind == TypeInt {
			verifAssert(g.kind == TypeInt && g.i == want.i, "an int is written so that a decoder reads exactly that integer")
		} else {
			// a whole-valued float may legitimately be written without a fraction; numerically identical is what is required
			if g.kind == TypeInt {
				verifAssert(float64(g.i) == want.f, "a float is written so that a decoder reads the numerically identical number")
			} else {
				verifAssert(g.kind == TypeFloat && g.f == want.f, "a float is written so that a decoder reads the identical float64")
			}
		}
	} else {
		verifAssert(!ok, "one number yields one element")
	}
	verifReach("end")
}

// structure: nesting, order, key sets, separators — flat containers with every scalar kind
func H_C02_structure_flat() {
	verifBound("FLAT_WIDTH", 3)
	g := &hGen{scalars: []Type{TypeNil, TypeBool, TypeInt, TypeString}, width: 3, keyBytes: 1, strBytes: 1, strMin: 1, intBound: 10}
	var nd *hNode
	if nondetIntRange(0, 1) == 1 {
		nd = g.list(1)
	} else {
		nd = g.object(1)
	}
	hCheckStructure(nd, false)
	verifReach("end")
}

// nested containers to depth 2 (ints as leaves), every shape of width <= 2
func H_C02_structure_nested() {
	verifBound("DEPTH", 2)
	verifBound("WIDTH", 2)
	g := &hGen{scalars: []Type{TypeInt}, width: 2, keyBytes: 1, intBound: 10, nonNeg: true, fixKeys: true}
	var nd *hNode
	if nondetIntRange(0, 1) == 1 {
		nd = g.list(2)
	} else {
		nd = g.object(2)
	}
	hCheckStructure(nd, false)
	verifReach("end")
}

func hCheckStructure(nd *hNode, floats bool) {
	hAsciiTree(nd)
	c := nd.build()
	before := hSnapAny(c)
	out := hStringAny(c)
	got, ok := refParse(out)
	verifAssert(ok, "String() is one syntactically valid RFC 8259 text")
	if ok {
		if floats {
			verifAssert(hRefEqNum(before, got), "a decoder recovers the same nesting, order, key set and scalars (numbers numerically)")
		} else {
			verifAssert(hExact(before, got), "a decoder recovers the same nesting, order, key set and scalars")
		}
	}
	verifAssert(hExact(before, hSnapAny(c)), "String() does not modify the container")
}

// like hRefEq, but a float in a and a number of either kind in b compare numerically
func hRefEqNum(a, b mval) bool {
	if a.kind == TypeFloat {
		if b.kind == TypeInt {
			return a.f == float64(b.i)
		}
		return b.kind == TypeFloat && a.f == b.f
	}
	if a.kind != b.kind {
		return false
	}
	switch a.kind {
	case TypeList:
		if len(a.elem) != len(b.elem) {
			return false
		}
		r := true
		for i := range a.elem {
			r = verifAnd(r, hRefEqNum(a.elem[i], b.elem[i]))
		}
		return r
	case TypeObject:
		if len(a.elem) != len(b.elem) {
			return false
		}
		r := true
		for i := range a.elem {
			found := false
			for j := range b.elem {
				found = verifOr(found, verifAnd(a.keys[i] == b.keys[j], hRefEqNum(a.elem[i], b.elem[j])))
			}
			r = verifAnd(r, found)
		}
		return r
	}
	return hRefEq(a, b)
}

// acyclic trees in which the same container instance is reachable twice (diamonds): NewListOf of a container,
// one list under two keys, a leaf shared across levels — String() writes it out in full at every place
func hDiamond() any {
	x := nondetInt()
	verifAssume(verifAnd(x >= 0, x < 10))
	inner := NewList(x, "s")
	io := NewObject("q", inner)
	switch nondetIntRange(0, 4) {
	case 0:
		return NewList(inner, inner)
	case 1:
		return NewObject("a", inner, "b", inner)
	case 2:
		return NewListOf(io, 2)
	case 3:
		return NewList(inner, io, NewList(io))
	default:
		return NewObject("a", io, "b", NewObject("c", io, "d", inner))
	}
}

func H_C02_shared_child() {
	c := hDiamond()
	before := hSnapAny(c)
	var out string
	p := verifCatch(func() { out = hStringAny(c) })
	verifAssert(!p, "String() of an acyclic tree does not panic")
	if !p {
		got, ok := refParse(out)
		verifAssert(ok, "String() is one syntactically valid RFC 8259 text")
		if ok {
			verifAssert(hExact(before, got), "a decoder recovers the same nesting, order, key set and scalars")
		}
	}
	verifReach("end")
}

// String() inside a history: serialise, change a nested container through its own reference (or through a
// tree-form path of the root), serialise again — the second text denotes the current content
func H_C02_string_after_nested_mutation() {
	x, y := nondetInt(), nondetInt()
	verifAssume(verifAnd(verifAnd(x >= 0, x < 10), verifAnd(y >= 0, y < 10)))
	innerL := NewList(x)
	innerO := NewObject("q", x)
	var c any
	isList := nondetIntRange(0, 1) == 0
	if isList {
		c = NewList(innerL, innerO, NewObject("deep", innerL))
	} else {
		c = NewObject("l", innerL, "o", innerO, "n", NewList(innerO))
	}
	first := hStringAny(c)
	_, ok1 := refParse(first)
	verifAssert(ok1, "String() is one syntactically valid RFC 8259 text")
	switch nondetIntRange(0, 4) {
	case 0:
		innerL.Add(y)
	case 1:
		innerO.Set("q", y)
	case 2:
		innerO.Set("r", NewList(y))
	case 3:
		if isList {
			c.(List).SetTF("#0#0", y)
		} else {
			c.(Object).SetTF(".l#0", y)
		}
	default:
		innerL.Clear()
	}
	now := hSnapAny(c)
	got, ok := refParse(hStringAny(c))
	verifAssert(ok, "String() is one syntactically valid RFC 8259 text")
	if ok {
		verifAssert(hExact(now, got), "after a change inside a nested container String() denotes the current content")
	}
	verifReach("end")
}

// every string of two (thorough: three) arbitrary Unicode scalar values as a string token and as a key
func H_C02_string_runes() {
	n := 2
	if verifTier() > 0 {
		n = 3
	}
	verifBound("STRRUNES", n)
	s := ""
	for i := 0; i < n; i++ {
		s += string(hValidRune())
	}
	var c any
	if nondetIntRange(0, 1) == 0 {
		c = NewList(s)
	} else {
		c = NewObject(s, 1)
	}
	got, ok := refParse(hStringAny(c))
	verifAssert(ok, "String() is one syntactically valid RFC 8259 text")
	if ok {
		verifAssert(hExact(hSnapAny(c), got), "a decoder recovers byte-identical strings and keys")
	}
	verifReach("end")
}
