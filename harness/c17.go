package anytype

// C17 — Sort orders in place without losing elements; Reverse is an involution.

func hListWithSpare(n, spare int) *list {
	l := NewListOf(nil, n+spare).(*list)
	for i := 0; i < spare; i++ {
		l.Pop()
	}
	return l
}

func H_C17_sort_ints() {
	maxN := 3
	if verifTier() > 0 {
		maxN = 5
	}
	verifBound("LISTN", maxN)
	n := nondetIntRange(1, maxN)
	spare := nondetIntRange(0, 1)
	l := hListWithSpare(n, spare)
	in := make([]int, n)
	for i := 0; i < n; i++ {
		in[i] = nondetInt()
		l.Replace(i, in[i])
	}
	ret := l.Sort()
	verifAssert(ret == List(l), "Sort returns the receiver")
	verifAssert(l.Count() == n, "Sort keeps the length")
	out := make([]int, n)
	for i := 0; i < n; i++ {
		verifAssert(l.TypeOf(i) == TypeInt, "sorted element is still an int")
		out[i] = l.GetInt(i)
		verifObserve("out", out[i])
	}
	for i := 0; i+1 < n; i++ {
		verifAssert(out[i] <= out[i+1], "Sort yields non-decreasing order")
	}
	// multiset preserved: every value occurs equally often before and after
	for i := 0; i < n; i++ {
		cb, ca := 0, 0
		for j := 0; j < n; j++ {
			if in[j] == in[i] {
				cb++
			}
			if out[j] == in[i] {
				ca++
			}
		}
		verifAssert(cb == ca, "Sort keeps the multiset of elements")
	}
	verifReach("end")
}
