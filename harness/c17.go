package anytype

// C17 — Sort orders in place without losing elements; Reverse is an involution.

func H_C17_sort_ints() {
	maxN := 3
	if verifTier() > 0 {
		maxN = 5
	}
	verifBound("LISTN", maxN)
	n := nondetIntRange(1, maxN)
	spare := nondetIntRange(0, 1)
	l := hListWithSpare(n, spare)
	in := make([]int, n)
	for i := 0; i < n; i++ {
		in[i] = nondetInt()
		l.Replace(i, in[i])
	}
	ret := l.Sort()
	verifAssert(ret == List(l), "Sort returns the receiver")
	verifAssert(l.Count() == n, "Sort keeps the length")
	out := make([]int, n)
	for i := 0; i < n; i++ {
		verifAssert(l.TypeOf(i) == TypeInt, "sorted element is still an int")
		out[i] = l.GetInt(i)
		verifObserve("out", out[i])
	}
	for i := 0; i+1 < n; i++ {
		verifAssert(out[i] <= out[i+1], "Sort yields non-decreasing order")
	}
	// multiset preserved: every value occurs equally often before and after
	for i := 0; i < n; i++ {
		cb, ca := 0, 0
		for j := 0; j < n; j++ {
			if in[j] == in[i] {
				cb++
			}
			if out[j] == in[i] {
				ca++
			}
		}
		verifAssert(cb == ca, "Sort keeps the multiset of elements")
	}
	verifReach("end")
}

func H_C17_sort_floats() {
	maxN := 3
	if verifTier() > 0 {
		maxN = 4
	}
	verifBound("LISTN", maxN)
	n := nondetIntRange(1, maxN)
	l := hListWithSpare(n, nondetIntRange(0, 1))
	in := make([]float64, n)
	for i := 0; i < n; i++ {
		in[i] = hNonNaNFloat() // +-Inf, +-0 included
		l.Replace(i, in[i])
	}
	ret := l.Sort()
	verifAssert(ret == List(l), "Sort returns the receiver")
	verifAssert(l.Count() == n, "Sort keeps the length")
	out := make([]float64, n)
	for i := 0; i < n; i++ {
		verifAssert(l.TypeOf(i) == TypeFloat, "sorted element is still a float")
		out[i] = l.GetFloat(i)
	}
	for i := 0; i+1 < n; i++ {
		verifAssert(out[i] <= out[i+1], "Sort yields non-decreasing order")
	}
	// multiset of bit patterns preserved (so -0 / +0 are not merged)
	for i := 0; i < n; i++ {
		cb, ca := 0, 0
		bi := verifFloatBits(in[i])
		for j := 0; j < n; j++ {
			cb += verifIteInt(verifFloatBits(in[j]) == bi, 1, 0)
			ca += verifIteInt(verifFloatBits(out[j]) == bi, 1, 0)
		}
		verifAssert(cb == ca, "Sort keeps the multiset of elements")
	}
	verifReach("end")
}

func H_C17_sort_strings() {
	maxN := 3
	verifBound("LISTN", maxN)
	verifBound("STRBYTES", 2)
	n := nondetIntRange(1, maxN)
	l := hListWithSpare(n, nondetIntRange(0, 1))
	in := make([]string, n)
	for i := 0; i < n; i++ {
		in[i] = hBytesStr(nondetIntRange(0, 2)) // bytewise order is what is specified; any bytes
		l.Replace(i, in[i])
	}
	ret := l.Sort()
	verifAssert(ret == List(l), "Sort returns the receiver")
	verifAssert(l.Count() == n, "Sort keeps the length")
	out := make([]string, n)
	for i := 0; i < n; i++ {
		verifAssert(l.TypeOf(i) == TypeString, "sorted element is still a string")
		out[i] = l.GetString(i)
	}
	for i := 0; i+1 < n; i++ {
		verifAssert(out[i] <= out[i+1], "Sort yields non-decreasing bytewise order")
	}
	for i := 0; i < n; i++ {
		cb, ca := 0, 0
		for j := 0; j < n; j++ {
			cb += verifIteInt(in[j] == in[i], 1, 0)
			ca += verifIteInt(out[j] == in[i], 1, 0)
		}
		verifAssert(cb == ca, "Sort keeps the multiset of elements")
	}
	// idempotence
	l.Sort()
	for i := 0; i < n; i++ {
		verifAssert(l.GetString(i) == out[i], "sorting twice equals sorting once")
	}
	verifReach("end")
}

func H_C17_sort_idempotent_ints() {
	n := nondetIntRange(1, 3)
	l := NewList()
	for i := 0; i < n; i++ {
		l.Add(nondetInt())
	}
	l.Sort()
	first := l.IntSlice()
	l.Sort()
	for i := 0; i < n; i++ {
		verifAssert(l.GetInt(i) == first[i], "sorting twice equals sorting once")
	}
	verifReach("end")
}

// Sort on a list whose first element is neither string, int nor float panics and changes nothing.
func H_C17_sort_panics() {
	n := nondetIntRange(1, 3)
	l := NewList()
	var first any
	switch nondetIntRange(0, 3) {
	case 0:
		first = nil
	case 1:
		first = nondetBool()
	case 2:
		first = NewList(nondetInt())
	default:
		first = NewObject("k", nondetInt())
	}
	l.Add(first)
	for i := 1; i < n; i++ {
		l.Add(hAnyScalar())
	}
	before := hSnapList(l, false)
	p := verifCatch(func() { l.Sort() })
	verifAssert(p, "Sort panics when the first element is not string/int/float")
	verifAssert(hSameSlots(before, hSnapList(l, false)), "a panicking Sort leaves the list unchanged")
	verifReach("end")
}

// Reverse: element i moves to n-1-i (identity of containers, value of scalars), in place.
func H_C17_reverse() {
	maxN := 4
	if verifTier() > 0 {
		maxN = 6
	}
	verifBound("LISTN", maxN)
	n := nondetIntRange(0, maxN)
	l := hListWithSpare(n, nondetIntRange(0, 1))
	inner := NewList(1)
	twin := NewList(1) // same content as inner, another container
	obj := NewObject("a", 1)
	for i := 0; i < n; i++ {
		switch nondetIntRange(0, 5) {
		case 0:
			l.Replace(i, nondetInt())
		case 1:
			l.Replace(i, hBytesStr(1))
		case 2:
			l.Replace(i, inner)
		case 3:
			l.Replace(i, twin)
		case 4:
			l.Replace(i, hFiniteFloat()) // values that compare equal with different bits (+0 / -0) are distinct elements
		default:
			l.Replace(i, obj)
		}
	}
	before := hSnapList(l, false)
	ret := l.Reverse()
	verifAssert(ret == List(l), "Reverse returns the receiver")
	after := hSnapList(l, false)
	verifAssert(len(after.elem) == n, "Reverse keeps the length")
	for i := 0; i < n; i++ {
		verifAssert(hSameShallow(before.elem[i], after.elem[n-1-i]), "Reverse moves element i to n-1-i")
	}
	l.Reverse()
	verifAssert(hSameSlots(before, hSnapList(l, false)), "Reverse twice restores the list")
	verifReach("end")
}

// Reverse on longer lists (one path per length: the elements are symbolic ints that are never inspected).
// Lengths above 12 matter because a reversal written with the sort package leaves the insertion-sort regime there.
func H_C17_reverse_long() {
	maxN := 24
	if verifTier() > 0 {
		maxN = 70
	}
	verifBound("REVERSE_LISTN", maxN)
	n := nondetIntRange(6, maxN)
	l := hListWithSpare(n, nondetIntRange(0, 1))
	for i := 0; i < n; i++ {
		l.Replace(i, nondetInt())
	}
	before := hSnapList(l, false)
	ret := l.Reverse()
	verifAssert(ret == List(l), "Reverse returns the receiver")
	after := hSnapList(l, false)
	verifAssert(len(after.elem) == n, "Reverse keeps the length")
	ok := true
	for i := 0; i < n && i < len(after.elem); i++ {
		ok = verifAnd(ok, hSameShallow(before.elem[i], after.elem[n-1-i]))
	}
	verifAssert(ok, "Reverse moves element i to n-1-i")
	l.Reverse()
	verifAssert(hSameSlots(before, hSnapList(l, false)), "Reverse twice restores the list")
	verifReach("end")
}

// Sort inside a history: the list may have been produced by NewListOf / SubList / Concat (slots of one or
// several lists may then hold one shared scalar wrapper), may have been sorted or reversed before, and is
// mutated between two sorts. Every Sort must order the *current* content; lists related to the receiver
// by derivation are not touched.
func H_C17_sort_in_history() {
	verifBound("LISTN_HISTORY", 3)
	a, b, c := nondetInt(), nondetInt(), nondetInt()
	var l, other List
	var otherWant []int
	switch nondetIntRange(0, 3) {
	case 0:
		l = NewListOf(a, 3)
		l.Replace(nondetIntRange(0, 2), b)
	case 1:
		other = NewList(a, b, c)
		otherWant = []int{a, b, c}
		l = other.SubList(0, 0)
	case 2:
		other = NewList(a)
		otherWant = []int{a}
		l = other.Concat(NewList(b, c))
	default:
		l = NewList(a, b, c)
	}
	sortedNow := func(what string) {
		n := l.Count()
		ok := true
		for i := 0; i+1 < n; i++ {
			ok = verifAnd(ok, l.GetInt(i) <= l.GetInt(i+1))
		}
		verifAssert(ok, what)
	}
	multisetIs := func(want []int, what string) {
		n := l.Count()
		verifAssert(n == len(want), what)
		if n != len(want) {
			return
		}
		ok := true
		for i := 0; i < n; i++ {
			cb, ca := 0, 0
			for j := 0; j < n; j++ {
				cb += verifIteInt(want[j] == want[i], 1, 0)
				ca += verifIteInt(l.GetInt(j) == want[i], 1, 0)
			}
			ok = verifAnd(ok, cb == ca)
		}
		verifAssert(ok, what)
	}
	cur := l.IntSlice()
	l.Sort()
	sortedNow("Sort yields non-decreasing order")
	multisetIs(cur, "Sort keeps the multiset of elements")
	// something happens to the sorted list, then it is sorted again
	d := nondetInt()
	switch nondetIntRange(0, 4) {
	case 0:
		l.Reverse()
	case 1:
		l.Replace(nondetIntRange(0, l.Count()-1), d)
	case 2:
		l.Add(d)
	case 3:
		l.Insert(0, d)
	default:
		l.SetTF("#1", d)
	}
	cur = l.IntSlice()
	l.Sort()
	sortedNow("Sort after a mutation of an already sorted list yields non-decreasing order")
	multisetIs(cur, "Sort after a mutation keeps the multiset of the current elements")
	if other != nil {
		ok := other.Count() == len(otherWant)
		for i := 0; ok && i < len(otherWant); i++ {
			ok = verifAnd(ok, verifAnd(other.TypeOf(i) == TypeInt, other.GetInt(i) == otherWant[i]))
		}
		verifAssert(ok, "sorting a derived list leaves the list it was derived from unchanged")
	}
	verifReach("end")
}
