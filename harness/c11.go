package anytype

// C11 — tree-form writes hit exactly the addressed slot and nothing else.

// well-formed segment: '.'+non-empty key without sigils (symbolic: may or may not match existing keys),
// or '#'+canonical index 0..4
func hGenWFSeg() hSeg {
	c := nondetIntRange(0, 5)
	if c == 0 {
		k := hBytesStr(1)
		hNotSigil(k)
		return hSeg{sigil: '.', key: k, text: k}
	}
	i := c - 1
	return hSeg{sigil: '#', idx: i, text: string([]byte{byte('0' + i)}), num: true}
}

func mFindKey(m mval, k string) int {
	for i := range m.keys {
		if m.keys[i] == k {
			return i
		}
	}
	return -1
}

// hRefSet: the reference semantics of SetTF on a deep snapshot.
func hRefSet(node mval, segs []hSeg, v mval) mval {
	s := segs[0]
	last := len(segs) == 1
	var need Type
	if !last {
		if segs[1].sigil == '.' {
			need = TypeObject
		} else {
			need = TypeList
		}
	}
	out := mval{kind: node.kind}
	if node.kind == TypeObject {
		out.keys = append([]string{}, node.keys...)
		out.elem = append([]mval{}, node.elem...)
		i := mFindKey(node, s.key)
		var nv mval
		if last {
			nv = v
		} else {
			child := mval{kind: need}
			if i >= 0 && node.elem[i].kind == need {
				child = node.elem[i]
			}
			nv = hRefSet(child, segs[1:], v)
		}
		if i >= 0 {
			out.elem[i] = nv
		} else {
			out.keys = append(out.keys, s.key)
			out.elem = append(out.elem, nv)
		}
		return out
	}
	// list
	out.elem = append([]mval{}, node.elem...)
	n := len(node.elem)
	var nv mval
	if last {
		nv = v
	} else {
		child := mval{kind: need}
		if s.idx < n && node.elem[s.idx].kind == need {
			child = node.elem[s.idx]
		}
		nv = hRefSet(child, segs[1:], v)
	}
	if s.idx >= n {
		for j := n; j < s.idx; j++ {
			out.elem = append(out.elem, mval{kind: TypeNil})
		}
		out.elem = append(out.elem, nv)
	} else {
		out.elem[s.idx] = nv
	}
	return out
}

func hRefUnset(node mval, segs []hSeg) mval {
	s := segs[0]
	out := mval{kind: node.kind}
	if node.kind == TypeObject {
		i := mFindKey(node, s.key)
		for j := range node.keys {
			if j == i {
				if len(segs) == 1 {
					continue
				}
				out.keys = append(out.keys, node.keys[j])
				out.elem = append(out.elem, hRefUnset(node.elem[j], segs[1:]))
				continue
			}
			out.keys = append(out.keys, node.keys[j])
			out.elem = append(out.elem, node.elem[j])
		}
		return out
	}
	for j := range node.elem {
		if j == s.idx {
			if len(segs) == 1 {
				continue
			}
			out.elem = append(out.elem, hRefUnset(node.elem[j], segs[1:]))
			continue
		}
		out.elem = append(out.elem, node.elem[j])
	}
	return out
}

func hSetTFAny(root any, p string, v any) (ret any, panicked bool) {
	panicked = verifCatch(func() {
		switch r := root.(type) {
		case List:
			ret = r.SetTF(p, v)
		case Object:
			ret = r.SetTF(p, v)
		}
	})
	return
}

func hUnsetTFAny(root any, p string) (panicked bool) {
	return verifCatch(func() {
		switch r := root.(type) {
		case List:
			r.UnsetTF(p)
		case Object:
			r.UnsetTF(p)
		}
	})
}

// containers along the path in the pre-state that have the kind the next step requires
func hSpineContainers(root any, segs []hSeg) []any {
	out := []any{root}
	cur := root
	for i, s := range segs[:len(segs)-1] {
		var next any
		ok := false
		if s.sigil == '.' {
			if o, isO := cur.(Object); isO && o.KeyExists(s.key) {
				next, ok = o.Get(s.key), true
			}
		} else {
			if l, isL := cur.(List); isL && s.idx < l.Count() {
				next, ok = l.Get(s.idx), true
			}
		}
		if !ok {
			break
		}
		needObj := segs[i+1].sigil == '.'
		if _, isO := next.(Object); isO && needObj {
			out = append(out, next)
		} else if _, isL := next.(List); isL && !needObj {
			out = append(out, next)
		} else {
			break
		}
		cur = next
	}
	return out
}

func hGenWFPath(rootIsList bool, maxSeg int) []hSeg {
	n := nondetIntRange(1, maxSeg)
	segs := make([]hSeg, n)
	for i := range segs {
		segs[i] = hGenWFSeg()
	}
	// well-formed for this receiver: the leading sigil matches the root kind
	if rootIsList != (segs[0].sigil == '#') {
		verifAssume(false)
	}
	return segs
}

func H_C11_set() {
	maxSeg := 2
	if verifTier() > 0 {
		maxSeg = 3
	}
	verifBound("PATHSEG", maxSeg)
	rootIsList := nondetIntRange(0, 1) == 1
	root, _, _ := hTFTree(rootIsList)
	segs := hGenWFPath(rootIsList, maxSeg)
	p := hPathString(segs)
	var v any
	var vm mval
	if nondetIntRange(0, 1) == 0 {
		x := nondetInt()
		v, vm = x, mval{kind: TypeInt, i: x}
	} else {
		l := NewList(nondetInt())
		v, vm = l, hSnapAny(l)
	}
	before := hSnapAny(root)
	spine := hSpineContainers(root, segs)
	want := hRefSet(before, segs, vm)
	ret, panicked := hSetTFAny(root, p, v)
	verifAssert(!panicked, "SetTF on a well-formed path succeeds")
	if panicked {
		return
	}
	verifAssert(ret == root, "SetTF returns the container")
	after := hSnapAny(root)
	verifAssert(hExact(want, after), "after SetTF the tree equals the reference: addressed slot = v, missing/wrong-kind intermediates replaced, lists padded with nil, everything else unchanged")
	got, gp := hGetTFAny(root, p)
	verifAssert(!gp, "GetTF(p) resolves after SetTF(p, v)")
	if !gp {
		if l, isL := v.(List); isL {
			verifAssert(got == any(l), "GetTF(p) yields the identical container that was stored")
		} else {
			gi, isInt := got.(int)
			verifAssert(isInt && gi == v.(int), "GetTF(p) yields v")
		}
	}
	// right-kind intermediates are reused, not copied
	spineAfter := hSpineContainers(root, segs)
	ok := len(spineAfter) >= len(spine)
	for i := range spine {
		ok = ok && i < len(spineAfter) && spineAfter[i] == spine[i]
	}
	verifAssert(ok, "existing intermediates of the right kind are reused (identical containers)")
	verifReach("end")
}

func H_C11_unset() {
	maxSeg := 3
	verifBound("PATHSEG", maxSeg)
	rootIsList := nondetIntRange(0, 1) == 1
	root, _, _ := hTFTree(rootIsList)
	n := nondetIntRange(1, maxSeg)
	segs := make([]hSeg, n)
	for i := range segs {
		segs[i] = hGenSeg() // any segment, malformed ones included
	}
	p := hPathString(segs)
	before := hSnapAny(root)
	_, _, resolvable := hNavigate(root, segs)
	panicked := hUnsetTFAny(root, p)
	after := hSnapAny(root)
	if resolvable {
		verifAssert(!panicked, "UnsetTF on a resolvable path does not panic")
		verifAssert(hExact(hRefUnset(before, segs), after), "UnsetTF removes exactly the addressed field / element (later elements shift down) and nothing else")
	} else {
		verifAssert(hExact(before, after), "UnsetTF on a path that does not resolve leaves the tree unchanged")
	}
	verifReach("end")
}

// two writes in sequence
func H_C11_set_twice() {
	verifBound("PATHSEG_SEQ", 2)
	rootIsList := nondetIntRange(0, 1) == 1
	root, _, _ := hTFTree(rootIsList)
	s1 := hGenWFPath(rootIsList, 2)
	s2 := hGenWFPath(rootIsList, 2)
	x, y := nondetInt(), nondetInt()
	before := hSnapAny(root)
	want := hRefSet(hRefSet(before, s1, mval{kind: TypeInt, i: x}), s2, mval{kind: TypeInt, i: y})
	_, p1 := hSetTFAny(root, hPathString(s1), x)
	_, p2 := hSetTFAny(root, hPathString(s2), y)
	verifAssert(!p1 && !p2, "SetTF on well-formed paths succeeds")
	if !p1 && !p2 {
		verifAssert(hExact(want, hSnapAny(root)), "two SetTF in sequence equal the reference applied twice")
	}
	verifReach("end")
}

// Trees whose lists were produced by NewListOf / SubList / Concat: several slots (of one list, or of a list
// and the list derived from it) may then hold one shared scalar wrapper. A leaf write must still change
// exactly the addressed slot.
func H_C11_set_shared_scalars() {
	verifBound("PATHSEG_SHARED", 2)
	x, y := nondetInt(), nondetInt()
	s := hBytesStr(1)
	a := NewListOf(x, 3)
	if nondetIntRange(0, 1) == 1 {
		// the same content, but with spare capacity behind it (grown one element at a time)
		a = NewList().Add(x).Add(x).Add(x)
	}
	b := NewList(y, x)
	c := b.SubList(0, 0)
	d := a.Concat(b)
	e := NewListOf(s, 2)
	f := a.Concat(NewList(y)) // one element: fits into one slot of spare capacity behind a
	rootIsList := nondetIntRange(0, 1) == 1
	var root any
	if rootIsList {
		root = NewList(a, b, c, d, e, f)
	} else {
		root = NewObject("a", a, "b", b, "c", c, "d", d, "e", e, "f", f)
	}
	var segs []hSeg
	i := nondetIntRange(0, 5)
	j := nondetIntRange(0, 3) // 3 = the length of the shortest lists here: a write at index == count appends
	if rootIsList {
		segs = []hSeg{{sigil: '#', idx: i, text: string([]byte{byte('0' + i)}), num: true}}
	} else {
		k := string([]byte{byte('a' + i)})
		segs = []hSeg{{sigil: '.', key: k, text: k}}
	}
	segs = append(segs, hSeg{sigil: '#', idx: j, text: string([]byte{byte('0' + j)}), num: true})
	p := hPathString(segs)
	var v any
	var vm mval
	if nondetIntRange(0, 1) == 0 {
		z := nondetInt()
		v, vm = z, mval{kind: TypeInt, i: z}
	} else {
		z := hBytesStr(1)
		v, vm = z, mval{kind: TypeString, s: z}
	}
	before := hSnapAny(root)
	want := hRefSet(before, segs, vm)
	_, panicked := hSetTFAny(root, p, v)
	verifAssert(!panicked, "SetTF on a well-formed path succeeds")
	if panicked {
		return
	}
	verifAssert(hExact(want, hSnapAny(root)), "after SetTF the tree equals the reference: addressed slot = v, missing/wrong-kind intermediates replaced, lists padded with nil, everything else unchanged")
	verifReach("end")
}

// the written value compares equal to the current occupant without being the same thing: a distinct container
// with (possibly) the same content, or a float with the same numeric value and another bit pattern (-0.0 over 0.0).
// GetTF(p) must yield v itself, and a later write below p must land in v.
func H_C11_set_equal_but_distinct() {
	x := nondetInt()
	y := nondetInt() // the solver may choose y == x
	f := hFiniteFloat()
	g := hFiniteFloat() // the solver may choose g == f numerically with other bits
	oldL := NewList(x)
	oldO := NewObject("q", x)
	var root any
	var p string
	rootIsList := nondetIntRange(0, 1) == 1
	if rootIsList {
		root = NewList(oldL, oldO, f)
	} else {
		root = NewObject("l", oldL, "o", oldO, "f", f, "n", NewObject("l", oldL))
	}
	which := nondetIntRange(0, 2)
	if rootIsList {
		p = []string{"#0", "#1", "#2"}[which]
	} else {
		if nondetIntRange(0, 1) == 0 {
			p = []string{".l", ".o", ".f"}[which]
		} else {
			p = []string{".n.l", ".o", ".f"}[which]
		}
	}
	switch which {
	case 0:
		v := NewList(y)
		_, pn := hSetTFAny(root, p, v)
		got, gp := hGetTFAny(root, p)
		verifAssert(!pn && !gp && got == any(v), "GetTF(p) yields the identical container that was stored")
		hSetTFAny(root, p+"#1", 7)
		verifAssert(v.Count() == 2 && oldL.Count() == 1, "a later write below p lands in v, not in the container v replaced")
	case 1:
		v := NewObject("q", y)
		_, pn := hSetTFAny(root, p, v)
		got, gp := hGetTFAny(root, p)
		verifAssert(!pn && !gp && got == any(v), "GetTF(p) yields the identical container that was stored")
		hSetTFAny(root, p+".z", 7)
		verifAssert(v.Count() == 2 && oldO.Count() == 1, "a later write below p lands in v, not in the container v replaced")
	default:
		_, pn := hSetTFAny(root, p, g)
		got, gp := hGetTFAny(root, p)
		gf, isF := got.(float64)
		verifAssert(!pn && !gp && isF && verifFloatBits(gf) == verifFloatBits(g), "GetTF(p) yields v (the float that was written, bit for bit)")
	}
	verifReach("end")
}

// removals followed by writes: UnsetTF (also of the last field / element of a container), then SetTF into or
// through the same container — the write succeeds and the tree equals the reference applied in sequence
func H_C11_unset_then_set() {
	verifBound("PATHSEG_SEQ", 2)
	x, y := nondetInt(), nondetInt()
	var root any
	var p1, p2 []hSeg
	mk := func(parts ...string) []hSeg {
		var out []hSeg
		for _, t := range parts {
			if t[0] == '#' {
				out = append(out, hSeg{sigil: '#', idx: int(t[1] - '0'), text: t[1:], num: true})
			} else {
				out = append(out, hSeg{sigil: '.', key: t[1:], text: t[1:]})
			}
		}
		return out
	}
	switch nondetIntRange(0, 3) {
	case 0:
		root = NewObject("o", NewObject("only", x), "l", NewList(x))
		p1, p2 = mk(".o", ".only"), mk(".o", ".new")
	case 1:
		root = NewObject("o", NewObject("only", x), "l", NewList(x))
		p1, p2 = mk(".l", "#0"), mk(".l", "#1")
	case 2:
		root = NewList(NewObject("only", x), NewList(x))
		p1, p2 = mk("#0", ".only"), mk("#0", ".again")
	default:
		root = NewObject("only", x)
		p1, p2 = mk(".only"), mk(".only", ".deep")
	}
	before := hSnapAny(root)
	want := hRefSet(hRefUnset(before, p1), p2, mval{kind: TypeInt, i: y})
	pu := hUnsetTFAny(root, hPathString(p1))
	_, ps := hSetTFAny(root, hPathString(p2), y)
	verifAssert(!pu && !ps, "UnsetTF on a resolvable path and SetTF on a well-formed path succeed, also one after the other")
	if !pu && !ps {
		verifAssert(hExact(want, hSnapAny(root)), "an UnsetTF followed by a SetTF equals the reference applied in sequence")
	}
	verifReach("end")
}

// long lists and user-defined containers on the written path: SetTF through element 100..999 of a list of 600
// (reuse below the count, padding above), and through stored derived containers (reused, never replaced)
func H_C11_set_long_lists_and_derived_intermediates() {
	x, v := nondetInt(), nondetInt()
	if nondetIntRange(0, 1) == 0 {
		inner := NewObject("k", x)
		l := NewListOf(inner, 600)
		hi := []string{"10", "51", "59", "60", "65"}[nondetIntRange(0, 4)]
		d1, d2 := hi[0], hi[1]
		d3 := nondetByte()
		verifAssume(verifAnd(d3 >= '0', d3 <= '9'))
		idx := hConc(int(d1-'0')*100+int(d2-'0')*10+int(d3-'0'), 100, 660)
		p := "#" + string([]byte{d1, d2, d3}) + ".name"
		root := NewObject("rows", l)
		_, ps := hSetTFAny(root, ".rows"+p, v)
		verifAssert(!ps, "SetTF on a well-formed path succeeds")
		if !ps {
			got, gp := hGetTFAny(root, ".rows"+p)
			gi, isInt := got.(int)
			verifAssert(!gp && isInt && gi == v, "GetTF(p) yields v")
			if idx < 600 {
				verifAssert(l.Count() == 600 && l.Get(idx) == any(inner) && inner.Count() == 2, "existing intermediates of the right kind are reused (identical containers)")
			} else {
				pad := true
				if idx > 600 {
					pad = l.TypeOf(idx-1) == TypeNil && l.TypeOf(600) == TypeNil
				}
				verifAssert(l.Count() == idx+1 && pad && l.Get(0) == any(inner) && l.Get(599) == any(inner), "lists are padded with nil up to the requested index")
			}
		}
	} else {
		dl := hDerivedList(x, NewObject("q", 1))
		do := hDerivedObject("q", x, "l", NewList(1))
		root := NewObject("dl", dl, "do", do)
		hostL := NewList(do, dl)
		_, p1 := hSetTFAny(root, ".do.z", v)
		_, p2 := hSetTFAny(root, ".dl#1.z", v)
		_, p3 := hSetTFAny(hostL, "#0.l#1", v)
		_, p4 := hSetTFAny(hostL, "#1#2", v)
		verifAssert(!p1 && !p2 && !p3 && !p4, "SetTF on a well-formed path succeeds")
		verifAssert(root.Get("dl") == any(dl) && root.Get("do") == any(do) && hostL.Get(0) == any(do) && hostL.Get(1) == any(dl), "existing intermediates of the right kind are reused (identical containers), user-defined containers included")
		verifAssert(do.Count() == 3 && do.GetInt("q") == x && dl.Count() == 3 && dl.GetInt(0) == x, "every entry that is not on the path keeps its previous value")
	}
	verifReach("end")
}
