package anytype

// Scale harnesses: the same properties over LONG containers. The shape (length, which slots hold what kind)
// is concrete and forked over a set of sizes around the usual thresholds (2^k-1, 2^k, 2^k+1 up to 4097);
// a handful of slots hold symbolic scalars so that the solver still decides the assertions for every value
// there. A change that keeps small containers right and switches to a different code path above some
// length (chunking, a fast path, a sampling comparison, a counter of a narrow type) shows here.

var hScaleSizesQuick = []int{31, 64, 65, 127, 128, 129, 255, 256, 257, 511, 512, 513, 1023, 1024, 1025, 2049, 4097}
var hScaleSizesThorough = []int{16, 17, 31, 32, 33, 63, 64, 65, 100, 127, 128, 129, 255, 256, 257, 300, 511, 512, 513, 1000, 1023, 1024, 1025, 2047, 2048, 2049, 4095, 4096, 4097, 8193, 10001}

func hScaleN() int {
	sizes := hScaleSizesQuick
	if verifTier() > 0 {
		sizes = hScaleSizesThorough
	}
	n := sizes[nondetIntRange(0, len(sizes)-1)]
	verifBound("UNWIND", 4*n+64)
	verifBound("SCALE_MAXLEN", sizes[len(sizes)-1])
	return n
}

// hScaleSmallN: sizes for the more expensive walks (quadratic oracles, schedulers, text).
func hScaleSmallN() int {
	sizes := []int{31, 65, 129, 257, 513}
	if verifTier() > 0 {
		sizes = []int{17, 31, 33, 65, 127, 129, 255, 257, 511, 513, 1025, 2049}
	}
	n := sizes[nondetIntRange(0, len(sizes)-1)]
	verifBound("UNWIND", 8*n+64)
	verifBound("SCALE_SMALL_MAXLEN", sizes[len(sizes)-1])
	return n
}

// hLongNative builds the element values of a long list. flavour 0: ints only (element i is the int i,
// symbolic ints at 0, n/2, n-1); flavour 1 (and 3): mixed kinds in a fixed rotation (int, string, float, bool, nil)
// with symbolic scalars at 0, n/2 and n-1; flavour 2: ints with a nested list at n/2 and a nested object at n-1.
func hLongNative(n, flavour int) []any {
	out := make([]any, n)
	for i := 0; i < n; i++ {
		switch {
		case flavour%2 == 1 && i%5 == 1:
			out[i] = "s"
		case flavour%2 == 1 && i%5 == 2:
			out[i] = float64(i) + 0.5
		case flavour%2 == 1 && i%5 == 3:
			out[i] = i%2 == 0
		case flavour%2 == 1 && i%5 == 4:
			out[i] = nil
		default:
			out[i] = i
		}
	}
	switch flavour {
	case 0:
		out[0], out[n/2], out[n-1] = nondetInt(), nondetInt(), nondetInt()
	case 1:
		out[0], out[n/2], out[n-1] = nondetInt(), hBytesStr(1), hFiniteFloat()
	case 3: // as 1, the string being one arbitrary ASCII byte (valid UTF-8; controls, quote and backslash included)
		c := nondetByte()
		verifAssume(c < 0x80)
		out[0], out[n/2], out[n-1] = nondetInt(), string([]byte{c}), hFiniteFloat()
	default:
		out[0] = nondetInt()
		out[n/2] = NewList(nondetInt(), "x")
		out[n-1] = NewObject("k", nondetInt())
	}
	return out
}

func hLongList(n, flavour int) (List, []any) {
	vals := hLongNative(n, flavour)
	return NewList(vals...), vals
}

func hSnapNative(vals []any) mval {
	m := mval{kind: TypeList, elem: make([]mval, len(vals))}
	for i, v := range vals {
		m.elem[i] = hSnapAny(v)
	}
	return m
}

// ---- C05: the sequence operations on long lists ----

func H_C05_scale_sequence_ops() {
	n := hScaleN()
	op := nondetIntRange(0, 5)
	l, vals := hLongList(n, op%3)
	verifAssert(l.Count() == n, "a list built from n values has n elements")
	verifAssert(hExact(hSnapNative(vals), hSnapList(l, true)), "a long list holds its values in order")
	v := nondetInt()
	p := []int{0, 1, n / 2, n - 1, n}[nondetIntRange(0, 4)]
	var want []any
	switch op {
	case 0:
		l.Insert(p%n, v)
		q := p % n
		want = append(append(append(want, vals[:q]...), v), vals[q:]...)
	case 1:
		q := p % n
		l.Delete(q)
		want = append(append(want, vals[:q]...), vals[q+1:]...)
	case 2:
		l.Add(v, "t")
		want = append(append(want, vals...), v, "t")
	case 3:
		q := p % n
		l.Replace(q, v)
		want = append(want, vals...)
		want[q] = v
	case 4:
		l.Pop()
		want = append(want, vals[:n-1]...)
	default:
		a := []int{0, 1, n / 3}[nondetIntRange(0, 2)]
		b := []int{n / 2, n - 1, n}[nondetIntRange(0, 2)]
		s := l.SubList(a, b)
		verifAssert(hExact(hSnapNative(vals[a:b]), hSnapList(s, true)), "SubList(a, b) holds elements a..b-1 in order")
		want = append(want, vals...)
	}
	verifAssert(hExact(hSnapNative(want), hSnapList(l, true)), "after one operation the long list is what the sequence model says")
	verifReach("end")
}

func H_C05_scale_lookups() {
	n := hScaleN()
	l, vals := hLongList(n, 1)
	// a marker string that occurs exactly once, at a chosen position
	p := []int{0, 1, n / 2, n - 2, n - 1}[nondetIntRange(0, 4)]
	l.Replace(p, "marker")
	vals[p] = "marker"
	verifAssert(l.IndexOf("marker") == p, "IndexOf finds the only occurrence in a long list")
	verifAssert(l.Contains("marker"), "Contains sees an element of a long list")
	verifAssert(!l.Contains("absent") && l.IndexOf("absent") == -1, "an absent value is not found in a long list")
	verifAssert(!l.Empty() && l.Count() == n, "Count of a long list")
	verifReach("end")
}

// ---- C07: Equals over long containers differing in one place ----

func H_C07_scale_one_difference() {
	n := hScaleN()
	fl := nondetIntRange(0, 1)
	a, vals := hLongList(n, fl)
	vb := append([]any(nil), vals...)
	p := []int{0, 1, n / 2, n - 2, n - 1}[nondetIntRange(0, 4)]
	x, y := nondetInt(), nondetInt()
	a.Replace(p, x)
	vb[p] = y
	b := NewList(vb...)
	verifAssert(a.Equals(b) == (x == y), "long lists are equal exactly when their only differing slot holds equal values")
	verifAssert(b.Equals(a) == (x == y), "… in both directions")
	b.Add(nil)
	verifAssert(!a.Equals(b) && !b.Equals(a), "a long list never equals a list one element longer")
	verifReach("end")
}

func hScaleKey(i int) string {
	return "k" + string(rune('a'+i%26)) + string(rune('a'+(i/26)%26)) + string(rune('a'+(i/676)%26))
}

func H_C07_scale_objects() {
	n := hScaleSmallN()
	a, b := NewObject(), NewObject()
	for i := 0; i < n; i++ {
		a.Set(hScaleKey(i), i)
	}
	for i := n - 1; i >= 0; i-- {
		b.Set(hScaleKey(i), i)
	}
	verifAssert(a.Count() == n && b.Count() == n, "n distinct keys give n fields")
	verifAssert(a.Equals(b), "objects with the same n fields are equal whatever the insertion order")
	p := []int{0, n / 2, n - 1}[nondetIntRange(0, 2)]
	x := nondetInt()
	b.Set(hScaleKey(p), x)
	verifAssert(a.Equals(b) == (x == p), "objects with many fields are equal exactly when the one rewritten field is")
	verifAssert(b.Equals(a) == (x == p), "… in both directions")
	verifReach("end")
}

// ---- C08: Clone of long containers ----

func H_C08_scale_clone() {
	n := hScaleN()
	fl := nondetIntRange(0, 2)
	l, vals := hLongList(n, fl)
	var src any = l
	if nondetBool() {
		src = NewObject("a", l, "b", 1)
	}
	before := hSnapAny(src)
	// should an implementation copy long lists with helper goroutines, they run under one of two fixed schedules:
	// after the spawning loop has finished, or each at once (no effect on code that spawns nothing)
	verifSchedAll(-nondetIntRange(1, 2))
	cl := hCloneAny(src)
	verifAssert(verifRaces() == 0, "Clone of a long container is free of data races")
	verifAssert(hExact(before, hSnapAny(cl)), "the clone of a long container has the same content")
	var co, cc []any
	hContainers(src, &co)
	hContainers(cl, &cc)
	shared := false
	for _, x := range co {
		for _, y := range cc {
			shared = shared || x == y
		}
	}
	verifAssert(len(co) == len(cc) && !shared, "no container of a long clone is a container of the original")
	// mutate the clone at both ends and in the middle; the source must not move
	var cll List
	switch c := cl.(type) {
	case List:
		cll = c
	case Object:
		cll = c.GetList("a")
	}
	cll.Replace(0, "w")
	cll.Replace(n/2, "w")
	cll.Replace(n-1, "w")
	cll.Add("w")
	if fl == 2 {
		l.GetList(n/2).Add("z")
		verifAssert(cll.TypeOf(n/2) == TypeString, "the clone keeps what was written into it")
	}
	_ = vals
	after := hSnapAny(src)
	if fl == 2 {
		verifAssert(l.GetList(n/2).Count() == 3, "the source's nested list grew")
		l.GetList(n / 2).Pop()
		after = hSnapAny(src)
	}
	verifAssert(hExact(before, after), "writing into a long clone leaves the source unchanged")
	verifReach("end")
}

// ---- C09: deriving operations over long lists ----

func H_C09_scale_derive() {
	n := hScaleN()
	fl := nondetIntRange(0, 1)
	l, vals := hLongList(n, fl)
	before := hSnapList(l, true)
	var r List
	var want []any
	switch nondetIntRange(0, 4) {
	case 0:
		a := []int{0, 1, n / 3}[nondetIntRange(0, 2)]
		r = l.SubList(a, n-1)
		want = append(want, vals[a:n-1]...)
	case 1:
		o, ov := hLongList(33, 0)
		r = l.Concat(o)
		want = append(append(want, vals...), ov...)
	case 2:
		r = l.Filter(func(x any) bool { _, ok := x.(int); return ok })
		for _, v := range vals {
			if _, ok := v.(int); ok {
				want = append(want, v)
			}
		}
	case 3:
		r = l.Map(func(i int, x any) any { return x })
		want = append(want, vals...)
	default:
		r = l.Clone().Reverse()
		for i := n - 1; i >= 0; i-- {
			want = append(want, vals[i])
		}
	}
	verifAssert(hExact(hSnapNative(want), hSnapList(r, true)), "the result derived from a long list is what the sequence model says")
	verifAssert(hExact(before, hSnapList(l, true)), "deriving from a long list leaves it unchanged")
	r.Replace(0, "w")
	r.Replace(r.Count()-1, "w")
	r.Add("w")
	l.Add("q")
	l.Pop()
	verifAssert(hExact(before, hSnapList(l, true)), "writing into the result leaves the long source unchanged")
	verifAssert(r.GetString(r.Count()-1) == "w" && r.GetString(0) == "w", "the result keeps what was written into it")
	verifReach("end")
}

// ---- C13: native conversions of long containers ----

func H_C13_scale_native() {
	n := hScaleN()
	fl := nondetIntRange(0, 1)
	vals := hLongNative(n, fl)
	l := NewListFrom(vals)
	verifAssert(hExact(hSnapNative(vals), hSnapList(l, true)), "NewListFrom of a long slice holds its values in order")
	s := l.Slice()
	verifAssert(len(s) == n, "Slice of a long list has its length")
	verifAssert(hExact(hSnapNative(vals), hSnapNative(s)), "Slice of a long list returns its values in order")
	s[0], s[n/2], s[n-1] = "w", "w", "w"
	vals[0] = "v"
	verifAssert(l.TypeOf(0) != TypeString && l.TypeOf(n-1) != TypeString, "neither the source slice nor the returned slice is the list's storage")
	ints := make([]int, n)
	for i := range ints {
		ints[i] = i
	}
	ints[n-1] = nondetInt()
	li := NewListFrom(ints)
	verifAssert(li.Count() == n && li.GetInt(n-1) == ints[n-1] && li.GetInt(n/2) == n/2, "NewListFrom of a long []int")
	back := li.IntSlice()
	verifAssert(len(back) == n && back[n-1] == ints[n-1] && back[0] == 0, "IntSlice of a long list")
	verifReach("end")
}

func H_C13_scale_dict() {
	n := hScaleSmallN()
	m := make(map[string]any, n)
	for i := 0; i < n; i++ {
		m[hScaleKey(i)] = i
	}
	x := nondetInt()
	m[hScaleKey(n/2)] = x
	o := NewObjectFrom(m)
	verifAssert(o.Count() == n, "NewObjectFrom of a map with many keys has that many fields")
	ok := true
	for i := 0; i < n; i++ {
		w := i
		if i == n/2 {
			w = x
		}
		ok = verifAnd(ok, verifAnd(o.TypeOf(hScaleKey(i)) == TypeInt, o.GetInt(hScaleKey(i)) == w))
	}
	verifAssert(ok, "every field of a large map arrives under its key")
	d := o.Dict()
	verifAssert(len(d) == n, "Dict of an object with many fields has that many entries")
	verifAssert(d[hScaleKey(n/2)] == any(x) && d[hScaleKey(n-1)] == any(n-1), "Dict of an object with many fields returns its values")
	verifReach("end")
}

// ---- C14: typed views over long lists ----

func H_C14_scale_views() {
	n := hScaleN()
	l, vals := hLongList(n, 1)
	var wi []any
	var ws []any
	var wf []any
	for _, v := range vals {
		switch v.(type) {
		case int:
			wi = append(wi, v)
		case string:
			ws = append(ws, v)
		case float64:
			wf = append(wf, v)
		}
	}
	var gi, gs, gf []any
	l.FilterInts(func(int) bool { return true }).ForEachValue(func(v any) { gi = append(gi, v) })
	l.ForEachString(func(v string) { gs = append(gs, v) })
	l.MapFloats(func(v float64) any { return v }).ForEachValue(func(v any) { gf = append(gf, v) })
	verifAssert(hExact(hSnapNative(wi), hSnapNative(gi)), "FilterInts over a long mixed list: exactly the ints, in order")
	verifAssert(hExact(hSnapNative(ws), hSnapNative(gs)), "ForEachString over a long mixed list: exactly the strings, in order")
	verifAssert(hExact(hSnapNative(wf), hSnapNative(gf)), "MapFloats over a long mixed list: exactly the floats, in order")
	next := 0
	inOrder := true
	l.ForEach(func(i int, v any) {
		inOrder = inOrder && i == next
		next++
	})
	verifAssert(inOrder && next == n, "ForEach visits every index of a long list once, in order")
	cnt := 0
	okv := true
	l.ForEachInt(func(v int) {
		okv = verifAnd(okv, hExact(hSnapAny(wi[cnt%len(wi)]), hSnapAny(v)))
		cnt++
	})
	verifAssert(verifAnd(okv, cnt == len(wi)), "ForEachInt visits exactly the ints of a long list, in order")
	verifReach("end")
}

// ---- C17: Sort and Reverse of long lists ----

func H_C17_scale_reverse_sort() {
	n := hScaleSmallN()
	vals := make([]any, n)
	for i := 0; i < n; i++ {
		vals[i] = (i * 7919) % n // a permutation when gcd(7919, n) == 1, duplicates otherwise: both fine
	}
	x := nondetInt()
	verifAssume(x > 1000000)
	vals[n/3] = x
	l := NewList(vals...)
	l.Reverse()
	rev := true
	for i := 0; i < n; i++ {
		rev = verifAnd(rev, l.GetInt(i) == vals[n-1-i].(int))
	}
	verifAssert(rev, "Reverse of a long list puts element i at n-1-i")
	l.Reverse()
	verifAssert(hExact(hSnapNative(vals), hSnapList(l, true)), "Reverse twice restores a long list")
	l.Sort()
	sorted := true
	for i := 1; i < n; i++ {
		sorted = verifAnd(sorted, l.GetInt(i-1) <= l.GetInt(i))
	}
	verifAssert(sorted, "a long list is in non-decreasing order after Sort")
	verifAssert(l.Count() == n && l.GetInt(n-1) == x, "the largest element of a long list ends up last")
	// multiset: every concrete value occurs as often as before
	cnt := make(map[int]int)
	for i, v := range vals {
		if i != n/3 {
			cnt[v.(int)]++
		}
	}
	for i := 0; i < n-1; i++ {
		cnt[l.GetInt(i)]--
	}
	same := true
	for _, c := range cnt {
		same = same && c == 0
	}
	verifAssert(same, "Sort of a long list keeps the multiset of elements")
	verifReach("end")
}

// ---- C18: aggregates over long lists ----

func H_C18_scale_folds() {
	n := hScaleN()
	vals := make([]any, n)
	ref := make([]float64, n)
	for i := 0; i < n; i++ {
		vals[i] = i - 7
	}
	x, f := nondetInt(), hFiniteFloat()
	verifAssume(verifAnd(x > 1000000, x < 2000000))
	verifAssume(verifAnd(f > 3000000, f < 4000000))
	mode := nondetIntRange(0, 2) // 0: ints only; 1: ints and one float; 2: a string and a float among the ints (Int* family only)
	vals[n-2] = x
	if mode > 0 {
		vals[n-1] = f
	}
	if mode == 2 {
		vals[n/2] = "not a number"
	}
	isum, fsum := 0, 0.0
	for i, v := range vals {
		switch c := v.(type) {
		case int:
			isum += c
			ref[i] = float64(c)
			fsum += ref[i]
		case float64:
			fsum += c
		}
	}
	l := NewList(vals...)
	before := hSnapList(l, false)
	verifAssert(l.IntSum() == isum, "IntSum of a long list is the fold over its ints")
	verifAssert(l.IntMin() == -7 && l.IntMax() == x, "IntMin / IntMax of a long list")
	switch mode {
	case 0:
		verifAssert(hSameFloat(l.Sum(), fsum), "Sum of a long int list is the left fold of + over the elements")
		verifAssert(l.Min() == -7 && l.Max() == float64(x), "Min / Max of a long int list")
	case 1:
		verifAssert(hSameFloat(l.Sum(), fsum), "Sum of a long numeric list is the left fold of + over the elements")
		verifAssert(l.Min() == -7 && l.Max() == f, "Min / Max of a long numeric list")
		verifAssert(hSameFloat(l.Avg(), fsum/float64(n)), "Avg of a long numeric list is Sum/Count")
	}
	verifAssert(hSameSlots(before, hSnapList(l, false)), "aggregates do not modify a long list")
	verifReach("end")
}

// ---- C20 / C03: documents with many lines and many elements ----

func H_C20_scale_many_lines() {
	n := hScaleN()
	// n elements, one per line; the bad literal sits on line n+1 (1-based: the opening bracket is on line 1)
	b := make([]byte, 0, 4*n+16)
	b = append(b, '[')
	for i := 0; i < n; i++ {
		b = append(b, '\n', '1', ',')
	}
	c := nondetByte()
	verifAssume(verifAnd(c >= 'g', c <= 'z'))
	verifAssume(verifAnd(c != 'n', c != 't'))
	good := append(append([]byte(nil), b...), '\n', '2', ']')
	l, err := ParseList(string(good))
	verifAssert(err == nil && l != nil && l.Count() == n+1 && l.GetInt(n) == 2 && l.GetInt(n/2) == 1, "a document of many lines parses to all its elements")
	bad := append(append([]byte(nil), b...), '\n', c, ']')
	_, err = ParseList(string(bad))
	verifAssert(err != nil, "a bad literal after many lines is rejected")
	if err != nil {
		verifAssert(hErrLine(err) == n+2, "the error cites the line of the bad literal after many lines")
	}
	verifReach("end")
}

// ---- C15: async variants over long lists (one fixed schedule per path instead of every schedule) ----

func H_C15_scale_async() {
	n := []int{65, 257, 513}[nondetIntRange(0, 2)]
	if verifTier() > 0 {
		n = []int{65, 129, 257, 513, 1025, 2049, 4097}[nondetIntRange(0, 6)]
	}
	verifBound("UNWIND", 8*n+64)
	verifBound("SCALE_ASYNC_MAXLEN", 513+verifTier()*3584)
	vals := make([]any, n)
	for i := range vals {
		vals[i] = i
	}
	x := nondetInt()
	vals[n-1] = x
	l := NewList(vals...)
	seen := make([]int, n)
	got := make([]any, n)
	bad := false
	verifSchedAll(-nondetIntRange(1, 3))
	if nondetBool() {
		ret := l.ForEachAsync(func(i int, v any) {
			verifYield()
			if i < 0 || i >= n {
				bad = true
				return
			}
			seen[i]++
			got[i] = v
		})
		verifAssert(ret == l, "ForEachAsync over a long list returns the list")
	} else {
		r := l.MapAsync(func(i int, v any) any {
			verifYield()
			if i < 0 || i >= n {
				bad = true
				return nil
			}
			seen[i]++
			got[i] = v
			return v
		})
		verifAssert(r != l && hExact(hSnapNative(vals), hSnapList(r, true)), "MapAsync over a long list returns what Map returns")
	}
	once := true
	for i := 0; i < n; i++ {
		once = once && seen[i] == 1
	}
	verifAssert(!bad && once, "the async call runs the function exactly once per index of a long list")
	verifAssert(hExact(hSnapNative(vals), hSnapNative(got)), "each index of a long list is paired with its own element")
	verifAssert(verifRaces() == 0, "no data race in the async call over a long list")
	verifAssert(hExact(hSnapNative(vals), hSnapList(l, true)), "the async call does not modify a long list")
	verifReach("end")
}

// ---- C03 / C04: deeply nested and long documents ----
// (C01, C02 and C16 have no scale harness: serialising and re-reading a long list with symbolic numbers forks over
// every digit count, and the reference layout oracle is quadratic; both ran past the quick budget)

// hDeep nests x under depth containers, lists and objects alternating (objects under the key "k").
func hDeep(depth int, x any) any {
	v := x
	for d := 0; d < depth; d++ {
		if d%2 == 0 {
			v = NewList(v)
		} else {
			v = NewObject("k", v)
		}
	}
	return v
}

func hScaleDepth() int {
	ds := []int{31, 65, 129}
	if verifTier() > 0 {
		ds = []int{17, 33, 65, 127, 129, 255, 257, 513, 1025}
	}
	d := ds[nondetIntRange(0, len(ds)-1)]
	verifBound("UNWIND", 8*d+64)
	verifBound("SCALE_MAXDEPTH", ds[len(ds)-1])
	return d
}

func hScaleParse(isList bool, s string) (any, error) {
	if isList {
		l, err := ParseList(s)
		if err != nil {
			return nil, err
		}
		return l, nil
	}
	o, err := ParseObject(s)
	if err != nil {
		return nil, err
	}
	return o, nil
}



func H_C03_scale_deep_documents() {
	refDeep = 1 << 20
	defer func() { refDeep = 0 }()
	d := hScaleDepth()
	x := nondetByte()
	verifAssume(verifAnd(x >= '0', x <= '9'))
	b := make([]byte, 0, 16*d)
	for i := d - 1; i >= 0; i-- {
		if i%2 == 0 {
			b = append(b, '[')
		} else {
			b = append(b, '{', '"', 'k', '"', ':')
		}
	}
	b = append(b, x)
	for i := 0; i < d; i++ {
		if i%2 == 0 {
			b = append(b, ']')
		} else {
			b = append(b, '}')
		}
	}
	doc := string(b)
	got, err := hScaleParse((d-1)%2 == 0, doc)
	verifAssert(err == nil, "a deeply nested valid document is accepted")
	if err == nil {
		want, ok := refParse(doc)
		verifAssert(ok && hExact(want, hSnapAny(got)), "a deeply nested document is read as the reference decoder reads it")
	}
	// the same document cut anywhere in its closing run is rejected (C04)
	cut := len(doc) - 1 - nondetIntRange(0, 2)*(d/3)
	_, err = hScaleParse((d-1)%2 == 0, doc[:cut])
	verifAssert(err != nil, "a deeply nested document cut inside its closing brackets is rejected")
	verifReach("end")
}

func H_C04_scale_prefixes_of_long_documents() {
	refDeep = 1 << 20
	defer func() { refDeep = 0 }()
	n := []int{33, 65}[nondetIntRange(0, 1)]
	verifBound("UNWIND", 64*n)
	verifBound("SCALE_PREFIX_MAXLEN", 65)
	l, _ := hLongList(n, 3)
	l.Replace(0, 7).Replace(n/2, "m").Replace(n-1, NewObject("k", NewList(1.5, nil)))
	doc := l.String()
	bad := false
	for cut := 0; cut < len(doc); cut++ {
		got, err := ParseList(doc[:cut])
		if err == nil || got != nil {
			bad = true
		}
	}
	verifAssert(!bad, "every proper prefix of the serialised form of a long list is rejected")
	// one symbolic byte overwritten somewhere: a total, either-or, repeatable outcome; a valid text is read as the
	// reference decoder reads it; a stray byte of 0x80 and above is ill-formed UTF-8 and must be rejected
	c := nondetByte()
	p := []int{1, len(doc) / 2, len(doc) - 2}[nondetIntRange(0, 2)]
	mut := doc[:p] + string([]byte{c}) + doc[p+1:]
	var got, again List
	var err, err2 error
	panicked := verifCatch(func() {
		got, err = ParseList(mut)
		again, err2 = ParseList(mut)
	})
	verifAssert(!panicked, "parsing a long document with one byte overwritten does not panic")
	if !panicked {
		verifAssert((got != nil) == (err == nil), "the outcome is a container or an error, never both or neither")
		verifAssert((err == nil) == (err2 == nil), "the same input gives the same outcome")
		if err == nil && err2 == nil && got != nil && again != nil {
			verifAssert(hExact(hSnapAny(got), hSnapAny(again)), "the same input gives the same tree")
		}
		want, ok := refParse(mut)
		if ok {
			verifAssert(err == nil, "a long document that is still valid JSON is accepted")
			if err == nil && got != nil {
				verifAssert(hRefEqNum(hSnapAny(got), want), "… and read as the reference decoder reads it")
			}
		}
		if c >= 0x80 {
			verifAssert(err != nil, "a stray byte of 0x80 or above inside a long document is rejected")
		}
	}
	verifReach("end")
}


// ---- C06: objects with many fields ----

func H_C06_scale_many_fields() {
	n := hScaleSmallN()
	o := NewObject()
	for i := 0; i < n; i++ {
		o.Set(hScaleKey(i), i)
	}
	x := nondetInt()
	p := []int{0, n / 2, n - 1}[nondetIntRange(0, 2)]
	switch nondetIntRange(0, 2) {
	case 0:
		o.Set(hScaleKey(p), x)
		verifAssert(o.Count() == n && o.GetInt(hScaleKey(p)) == x, "Set over an existing key of a large object replaces that field only")
	case 1:
		o.Unset(hScaleKey(p))
		verifAssert(o.Count() == n-1 && !o.KeyExists(hScaleKey(p)) && o.TypeOf(hScaleKey(p)) == TypeUndefined, "Unset removes exactly one field of a large object")
	default:
		o.Set("new", x)
		verifAssert(o.Count() == n+1 && o.GetInt("new") == x, "Set of a new key adds one field to a large object")
	}
	ok := true
	for i := 0; i < n; i++ {
		if i != p {
			ok = ok && o.KeyExists(hScaleKey(i)) && o.TypeOf(hScaleKey(i)) == TypeInt && o.GetInt(hScaleKey(i)) == i
		}
	}
	verifAssert(ok, "every other field of a large object is untouched")
	ks := o.Keys()
	vs := o.Values()
	verifAssert(ks.Count() == o.Count() && vs.Count() == o.Count(), "Keys and Values of a large object have one entry per field")
	seen := make(map[string]int)
	for i := 0; i < ks.Count(); i++ {
		seen[ks.GetString(i)]++
	}
	dup := false
	for k, c := range seen {
		dup = dup || c != 1 || !o.KeyExists(k)
	}
	verifAssert(!dup && len(seen) == o.Count(), "Keys of a large object lists every key exactly once")
	verifReach("end")
}

// ---- C07 / C08: deeply nested containers ----

func H_C08_scale_deep() {
	d := hScaleDepth()
	c := hDeep(d, nondetInt())
	before := hSnapAny(c)
	cl := hCloneAny(c)
	verifAssert(hExact(before, hSnapAny(cl)), "the clone of a deeply nested container has the same content")
	var co, cc []any
	hContainers(c, &co)
	hContainers(cl, &cc)
	verifAssert(len(co) == d && len(cc) == d, "every level of a deeply nested container is cloned")
	shared := false
	for i := range co {
		// levels correspond one to one; a shared container would be shared at its own level or below
		shared = shared || co[i] == cc[i] || co[i] == cc[len(cc)-1]
	}
	verifAssert(!shared, "no level of a deep clone is a container of the original")
	// write at the bottom of the clone: the original must not move
	switch b := cc[len(cc)-1].(type) {
	case List:
		b.Add("w")
	case Object:
		b.Set("w", 1)
	}
	verifAssert(hExact(before, hSnapAny(c)), "writing at the bottom of a deep clone leaves the original unchanged")
	verifReach("end")
}

func H_C07_scale_deep() {
	d := hScaleDepth()
	x, y := nondetInt(), nondetInt()
	a, b := hDeep(d, x), hDeep(d, y)
	eq := func(p, q any) bool {
		switch pp := p.(type) {
		case List:
			return pp.Equals(q.(List))
		case Object:
			return pp.Equals(q.(Object))
		}
		return false
	}
	verifAssert(eq(a, b) == (x == y), "deeply nested containers are equal exactly when the scalar at the bottom is")
	verifAssert(eq(b, a) == (x == y), "… in both directions")
	verifAssert(eq(a, a), "a deeply nested container equals itself")
	c := hDeep(d-2, NewList(NewList(x))) // same depth, the bottom two levels both lists: differs from a in one kind only when d-1 is odd
	if (d-1)%2 == 1 || (d-2)%2 == 1 {
		verifAssert(!eq(a, c) && !eq(c, a), "a list never equals an object at the same place deep inside")
	}
	verifReach("end")
}

// ---- C19: derived lists with many elements ----

func H_C19_scale_fluent() {
	n := hScaleSmallN()
	vals := make([]any, n)
	for i := range vals {
		vals[i] = (i * 31) % n
	}
	x := nondetInt()
	verifAssume(x > 1000000) // one order, decided by the solver at every comparison, instead of a fork per position
	vals[n-1] = x
	dl := hDerivedList(vals...)
	var r List
	switch nondetIntRange(0, 5) {
	case 0:
		r = dl.Sort()
	case 1:
		r = dl.Reverse()
	case 2:
		r = dl.Add(1, 2)
	case 3:
		r = dl.Delete(0, n/2)
	case 4:
		r = dl.ForEach(func(int, any) {})
	default:
		r = dl.Sort().Sort().Reverse()
	}
	verifAssert(r == dl, "a fluent call on a long derived list returns the derived value")
	holder := NewList(dl)
	verifAssert(holder.Get(0) == any(dl) && holder.GetList(0) == dl, "a long derived list comes back from storage as itself")
	verifReach("end")
}
