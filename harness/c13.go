package anytype

import "math"

// C13 — native conversions are faithful, recursive and never aliased with the container.

// hNativeSnap walks a native Go value; ok=false if an anytype container (or any other type) appears.
func hNativeSnap(v any) (m mval, ok bool) {
	switch c := v.(type) {
	case nil:
		return mval{kind: TypeNil}, true
	case bool:
		return mval{kind: TypeBool, b: c}, true
	case int:
		return mval{kind: TypeInt, i: c}, true
	case float64:
		return mval{kind: TypeFloat, f: c}, true
	case string:
		return mval{kind: TypeString, s: c}, true
	case []any:
		m = mval{kind: TypeList}
		ok = true
		for _, e := range c {
			em, eok := hNativeSnap(e)
			ok = ok && eok
			m.elem = append(m.elem, em)
		}
		return m, ok
	case map[string]any:
		m = mval{kind: TypeObject}
		ok = true
		for k, e := range c {
			em, eok := hNativeSnap(e)
			ok = ok && eok
			m.keys = append(m.keys, k)
			m.elem = append(m.elem, em)
		}
		return m, ok
	}
	return mval{kind: TypeUndefined}, false
}

// hNativeNilFree: no nil slice or nil map anywhere in a native tree (reflect.DeepEqual tells a nil slice from
// an empty one, and encoding/json prints them differently, so "deep-equal" round trips must keep empty ones empty).
func hNativeNilFree(v any) bool {
	switch c := v.(type) {
	case []any:
		if c == nil {
			return false
		}
		ok := true
		for _, e := range c {
			ok = ok && hNativeNilFree(e)
		}
		return ok
	case map[string]any:
		if c == nil {
			return false
		}
		ok := true
		for _, e := range c {
			ok = ok && hNativeNilFree(e)
		}
		return ok
	}
	return true
}

func hGenC13() *hGen {
	g := &hGen{scalars: []Type{TypeNil, TypeInt, TypeString}, width: 2, keyBytes: 1, strBytes: 1, strMin: 1}
	if verifTier() > 0 {
		g.scalars = hAllScalars
	}
	return g
}

func H_C13_native_export() {
	g := hGenC13()
	verifBound("DEPTH", 2)
	verifBound("WIDTH", 2)
	var n *hNode
	isList := nondetIntRange(0, 1) == 0
	if isList {
		n = g.list(2)
	} else {
		n = g.object(2)
	}
	c := n.build()
	before := hSnapAny(c)
	var nat any
	if isList {
		nat = c.(List).NativeSlice()
	} else {
		nat = c.(Object).NativeDict()
	}
	nm, ok := hNativeSnap(nat)
	verifAssert(ok, "Native* contains only nil, bool, int, float64, string, []any, map[string]any at every depth")
	verifAssert(hExact(before, nm), "Native* is deep-equal to the container's content")
	verifAssert(hExact(before, hSnapAny(c)), "Native* does not modify the container")
	verifReach("end")
}

func H_C13_from_native_roundtrip() {
	g := hGenC13()
	var n *hNode
	isList := nondetIntRange(0, 1) == 0
	if isList {
		n = g.list(2)
	} else {
		n = g.object(2)
	}
	src := n.native()
	want := n.snap()
	var back any
	if isList {
		back = NewListFrom(src).NativeSlice()
	} else {
		back = NewObjectFrom(src).NativeDict()
	}
	bm, ok := hNativeSnap(back)
	verifAssert(ok, "the round trip yields a plain native tree")
	verifAssert(hExact(want, bm), "NewXFrom(native).NativeX reproduces the content of the input")
	if hNativeNilFree(src) {
		verifAssert(hNativeNilFree(back), "NewXFrom(native).NativeX is deep-equal to the input: empty (non-nil) slices and maps come back empty, not nil")
	}
	sm, _ := hNativeSnap(src)
	verifAssert(hExact(want, sm), "NewXFrom does not modify its input")
	verifReach("end")
}

// Dict()/Slice(): one-level snapshots holding exactly what Get returns; no storage shared
func H_C13_snapshots_and_aliasing() {
	x, y := nondetInt(), hBytesStr(1)
	inner := NewList(x)
	io := NewObject("q", y)
	which := nondetIntRange(0, 1)
	if which == 0 {
		spare := nondetIntRange(0, 1)
		l := hListWithSpare(3, spare)
		l.Replace(0, x).Replace(1, inner).Replace(2, io)
		before := hSnapList(l, false)
		s := l.Slice()
		verifAssert(len(s) == 3, "Slice has one entry per element")
		ok := true
		for i := 0; i < 3 && i < len(s); i++ {
			ok = verifAnd(ok, hSameShallow(hSnapValue(l.TypeOf(i), s[i], false), before.elem[i]))
		}
		verifAssert(ok, "Slice holds exactly what Get returns per index (containers by identity)")
		// modifying the returned slice (also by appending within capacity) never changes the list
		switch nondetIntRange(0, 2) {
		case 0:
			s[nondetIntRange(0, 2)] = nondetInt()
		case 1:
			s = append(s, 1, 2, 3)
			s[0] = nil
		default:
			s = s[:1]
			s = append(s, nondetInt())
		}
		verifAssert(hSameSlots(before, hSnapList(l, false)), "modifying the slice returned by Slice() does not change the list")
		// modifying the list never changes an earlier snapshot
		s2 := l.Slice()
		switch nondetIntRange(0, 4) {
		case 0:
			l.Replace(0, y)
		case 1:
			l.Add(7)
		case 2:
			l.Insert(1, y)
		case 3:
			l.Reverse()
		default:
			l.Delete(0)
		}
		s3 := l.Slice() // a later export must not disturb an earlier one
		now := hSnapList(l, false)
		cur := len(s3) == len(now.elem)
		for i := 0; cur && i < len(s3); i++ {
			cur = verifAnd(cur, hSameShallow(hSnapValue(now.elem[i].kind, s3[i], false), now.elem[i]))
		}
		verifAssert(cur, "a Slice() taken after a mutation holds exactly what Get returns per index now")
		if len(s3) > 0 {
			s3[0] = 77
		}
		ok = len(s2) == 3
		for i := 0; i < 3 && i < len(s2); i++ {
			ok = verifAnd(ok, hSameShallow(hSnapValue(before.elem[i].kind, s2[i], false), before.elem[i]))
		}
		verifAssert(ok, "modifying the list (and exporting again) does not change a slice returned earlier")
		// native export at depth 2 is fresh as well
		l2 := NewList(inner, io)
		ns := l2.NativeSlice()
		ns[0].([]any)[0] = nondetInt()
		ns[1].(map[string]any)["q"] = 5
		verifAssert(verifAnd(inner.GetInt(0) == x, io.GetString("q") == y), "modifying a NativeSlice at depth 2 does not change nested containers")
	} else {
		o := NewObject("a", x, "b", inner, "c", io)
		before := []mval{hSnapValue(o.TypeOf("a"), o.Get("a"), false), hSnapValue(o.TypeOf("b"), o.Get("b"), false), hSnapValue(o.TypeOf("c"), o.Get("c"), false)}
		keys := []string{"a", "b", "c"}
		d := o.Dict()
		ok := len(d) == 3
		for i, k := range keys {
			v, has := d[k]
			ok = verifAnd(ok && has, hSameShallow(hSnapValue(before[i].kind, v, false), before[i]))
		}
		verifAssert(ok, "Dict holds exactly what Get returns per key (containers by identity)")
		switch nondetIntRange(0, 2) {
		case 0:
			d["a"] = nondetInt()
		case 1:
			delete(d, "b")
		default:
			d["zz"] = 1
		}
		ok = o.Count() == 3
		for i, k := range keys {
			ok = verifAnd(ok && o.KeyExists(k), hSameShallow(hSnapValue(o.TypeOf(k), o.Get(k), false), before[i]))
		}
		verifAssert(ok, "modifying the map returned by Dict() does not change the object")
		d2 := o.Dict()
		switch nondetIntRange(0, 2) {
		case 0:
			o.Set("a", y)
		case 1:
			o.Unset("b")
		default:
			o.Set("n", 1)
		}
		d3 := o.Dict() // a later export must not disturb an earlier one
		d3["a"] = 77
		ok = len(d2) == 3
		for i, k := range keys {
			v, has := d2[k]
			ok = verifAnd(ok && has, hSameShallow(hSnapValue(before[i].kind, v, false), before[i]))
		}
		verifAssert(ok, "modifying the object (and exporting again) does not change a map returned earlier")
		o2 := NewObject("b", inner, "c", io)
		nd := o2.NativeDict()
		nd["b"].([]any)[0] = nondetInt()
		nd["c"].(map[string]any)["q"] = 5
		verifAssert(verifAnd(inner.GetInt(0) == x, io.GetString("q") == y), "modifying a NativeDict at depth 2 does not change nested containers")
	}
	verifReach("end")
}

// the Go map/slice a container was built from is not aliased by the container
func H_C13_source_not_aliased() {
	x, y := nondetInt(), nondetInt()
	if nondetIntRange(0, 1) == 0 {
		src := make([]any, 2, 4)
		src[0], src[1] = x, []any{y}
		l := NewListFrom(src)
		switch nondetIntRange(0, 2) {
		case 0:
			src[0] = nondetInt()
		case 1:
			src[1].([]any)[0] = nondetInt()
		default:
			src = append(src, 9)
			src[0] = 3
		}
		verifAssert(verifAnd(l.Count() == 2, verifAnd(l.GetInt(0) == x, l.GetList(1).GetInt(0) == y)), "modifying the source slice does not change the list built from it")
		l.Replace(0, 1).Add(2)
		l.GetList(1).Replace(0, 5)
		_ = src
	} else {
		inner := map[string]any{"i": y}
		src := map[string]any{"a": x, "m": inner}
		o := NewObjectFrom(src)
		switch nondetIntRange(0, 2) {
		case 0:
			src["a"] = nondetInt()
		case 1:
			inner["i"] = nondetInt()
		default:
			delete(src, "m")
		}
		verifAssert(verifAnd(o.Count() == 2, verifAnd(o.GetInt("a") == x, o.GetObject("m").GetInt("i") == y)), "modifying the source map does not change the object built from it")
		o.Set("a", 0)
		o.GetObject("m").Set("i", 0)
		if v, ok := inner["i"]; ok {
			_ = v
		}
	}
	verifReach("end")
}

// acyclic trees in which the same container is reachable twice (a diamond): the export shows it in full
// at every place it occurs
func H_C13_shared_child_export() {
	x := nondetInt()
	inner := NewList(x, hBytesStr(1))
	io := NewObject("q", inner)
	var c any
	isList := nondetIntRange(0, 1) == 0
	if isList {
		c = NewList(inner, io, inner, io)
	} else {
		c = NewObject("a", inner, "b", io, "c", inner, "d", NewList(io, io))
	}
	before := hSnapAny(c)
	var nat any
	if isList {
		nat = c.(List).NativeSlice()
	} else {
		nat = c.(Object).NativeDict()
	}
	nm, ok := hNativeSnap(nat)
	verifAssert(ok, "Native* contains only nil, bool, int, float64, string, []any, map[string]any at every depth")
	verifAssert(hExact(before, nm), "Native* is deep-equal to the container's content")
	verifAssert(hExact(before, hSnapAny(c)), "Native* does not modify the container")
	verifReach("end")
}

// repeated exports, empty containers included: what is done to one exported map/slice is never visible in a
// later export of the same or of another container
func H_C13_repeated_exports() {
	x := nondetInt()
	n := nondetIntRange(0, 1)
	o1, o2 := NewObject(), NewObject()
	l1, l2 := NewList(), NewList()
	if n == 1 {
		o1.Set("k", x)
		o2.Set("k", x)
		l1.Add(x)
		l2.Add(x)
	}
	switch nondetIntRange(0, 3) {
	case 0:
		d := o1.Dict()
		d["new"] = 1
		delete(d, "k")
		verifAssert(len(o1.Dict()) == n && len(o2.Dict()) == n, "writing into a map returned by Dict() is not visible in a later Dict() of the same or another object")
		if n == 1 {
			verifAssert(o1.Dict()["k"] == any(x) && o2.Dict()["k"] == any(x), "writing into a map returned by Dict() is not visible in a later Dict() of the same or another object")
		}
	case 1:
		d := o1.NativeDict()
		d["new"] = 1
		delete(d, "k")
		verifAssert(len(o1.NativeDict()) == n && len(o2.NativeDict()) == n, "writing into a map returned by NativeDict() is not visible in a later export")
	case 2:
		s := l1.Slice()
		s = append(s, 7)
		s[0] = 8
		verifAssert(len(l1.Slice()) == n && len(l2.Slice()) == n, "writing into a slice returned by Slice() is not visible in a later Slice() of the same or another list")
		if n == 1 {
			verifAssert(l1.Slice()[0] == any(x) && l2.Slice()[0] == any(x), "writing into a slice returned by Slice() is not visible in a later Slice() of the same or another list")
		}
	default:
		s := l1.NativeSlice()
		s = append(s, 7)
		s[0] = 8
		verifAssert(len(l1.NativeSlice()) == n && len(l2.NativeSlice()) == n, "writing into a slice returned by NativeSlice() is not visible in a later export")
		if n == 1 {
			verifAssert(l1.NativeSlice()[0] == any(x), "writing into a slice returned by NativeSlice() is not visible in a later export")
		}
	}
	verifAssert(o1.Count() == n && o2.Count() == n && l1.Count() == n && l2.Count() == n, "modifying an exported map/slice does not change any container")
	verifReach("end")
}

// trees holding user-defined containers (structs embedding List/Object) and nil elements: the export is
// plain at every depth all the same, and Slice()/Dict() keep every element, nil included
func H_C13_derived_and_nil_elements() {
	x := nondetInt()
	dl := hDerivedList(x, nil)
	do := hDerivedObject("q", x, "n", nil)
	var c any
	isList := nondetIntRange(0, 1) == 0
	if isList {
		c = NewList(nil, dl, do, NewList(do), nil)
	} else {
		c = NewObject("n", nil, "l", dl, "o", do, "in", NewObject("d", dl))
	}
	before := hSnapAny(c)
	var nat any
	if isList {
		nat = c.(List).NativeSlice()
	} else {
		nat = c.(Object).NativeDict()
	}
	nm, ok := hNativeSnap(nat)
	verifAssert(ok, "Native* contains only nil, bool, int, float64, string, []any, map[string]any at every depth")
	verifAssert(hExact(before, nm), "Native* is deep-equal to the container's content")
	if isList {
		l := c.(List)
		s := l.Slice()
		verifAssert(len(s) == 5 && s[0] == nil && s[4] == nil && s[1] == any(dl) && s[2] == any(do), "Slice holds exactly what Get returns per index (containers by identity)")
	} else {
		o := c.(Object)
		d := o.Dict()
		v, has := d["n"]
		verifAssert(len(d) == 4 && has && v == nil && d["l"] == any(dl) && d["o"] == any(do), "Dict holds exactly what Get returns per key (containers by identity)")
	}
	verifReach("end")
}

// non-finite floats are floats too: they come back from every export as they went in
func H_C13_non_finite_floats() {
	inf := math.Inf(1)
	if nondetIntRange(0, 1) == 1 {
		inf = math.Inf(-1)
	}
	l := NewListFrom([]any{inf, []float64{inf}, map[string]float64{"k": inf}})
	ns := l.NativeSlice()
	ok := len(ns) == 3 && ns[0] == any(inf) && l.TypeOf(0) == TypeFloat && l.GetFloat(0) == inf
	if ok {
		in1, is1 := ns[1].([]any)
		in2, is2 := ns[2].(map[string]any)
		ok = is1 && is2 && len(in1) == 1 && in1[0] == any(inf) && in2["k"] == any(inf)
	}
	verifAssert(ok, "NewXFrom(native).NativeX reproduces the content of the input (non-finite floats included)")
	o := NewObjectFrom(map[string]any{"a": inf})
	verifAssert(o.Dict()["a"] == any(inf) && o.NativeDict()["a"] == any(inf), "Dict and NativeDict hold exactly what Get returns")
	verifReach("end")
}

// keys are arbitrary strings: two-byte keys whose bytes may be path characters ('.', '#'), quotes or
// anything else keep their spelling through NewObjectFrom and every export, at the top and one level down
func H_C13_keys_of_several_bytes() {
	verifBound("KEYBYTES", 2)
	k := hBytesStr(2)
	x, y := nondetInt(), nondetInt()
	src := map[string]any{k: x, "n": map[string]any{k: y}, "l": []any{map[string]any{k: nil}}}
	o := NewObjectFrom(src)
	nd := o.NativeDict()
	in1, ok1 := nd["n"].(map[string]any)
	l1, ok2 := nd["l"].([]any)
	ok := len(nd) == 3 && nd[k] == any(x) && ok1 && ok2 && len(in1) == 1 && in1[k] == any(y) && len(l1) == 1
	if ok {
		in2, ok3 := l1[0].(map[string]any)
		v, has := in2[k]
		ok = ok3 && len(in2) == 1 && has && v == nil
	}
	verifAssert(ok, "NewXFrom(native).NativeX reproduces the content of the input")
	d := o.Dict()
	verifAssert(len(d) == 3 && d[k] == any(x) && o.KeyExists(k) && o.GetObject("n").KeyExists(k) && o.Count() == 3, "Dict and NativeDict hold exactly what Get returns")
	verifAssert(len(src) == 3 && src[k] == any(x), "NewXFrom does not modify its input")
	verifReach("end")
}

// A container that is wrapped by a derived struct *after* it has been stored (Init re-registers the stored
// container's outer value): Get now returns the derived value, and the one-level snapshots hold exactly that.
func H_C13_wrapped_after_storing() {
	x := nondetInt()
	outer := NewListFrom([]any{"x", []any{x, 2}, map[string]any{"k": x}, nil})
	dl := &hDList{List: outer.GetList(1)}
	dl.Init(dl)
	do := &hDObject{Object: outer.GetObject(2)}
	do.Init(do)
	s := outer.Slice()
	verifAssert(outer.Get(1) == any(dl) && outer.Get(2) == any(do), "Init registers the outer value of a stored container")
	verifAssert(len(s) == 4 && s[0] == any("x") && s[1] == outer.Get(1) && s[2] == outer.Get(2) && s[3] == nil, "Slice holds exactly what Get returns per index (containers by identity)")
	o := NewObjectFrom(map[string]any{"l": []any{x}, "o": map[string]any{}})
	dl2 := &hDList{List: o.GetList("l")}
	dl2.Init(dl2)
	d := o.Dict()
	verifAssert(len(d) == 2 && d["l"] == o.Get("l") && d["l"] == any(dl2) && d["o"] == o.Get("o"), "Dict holds exactly what Get returns per key (containers by identity)")
	nat := outer.NativeSlice()
	in1, ok := nat[1].([]any)
	verifAssert(len(nat) == 4 && ok && len(in1) == 2 && in1[0] == any(x), "Native* is deep-equal to the container's content")
	verifReach("end")
}
