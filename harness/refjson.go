package anytype

// refjson: a short reference decoder for RFC 8259 texts (recursive descent over bytes).
// It is executed symbolically next to the real parser / serialiser; natively it is validated
// against encoding/json by the replay driver's oracle test.

type refP struct {
	s  string
	i  int
	ok bool
}

func refIsWS(c byte) bool { return c == ' ' || c == '\t' || c == '\n' || c == '\r' }

func (p *refP) ws() {
	for p.i < len(p.s) && refIsWS(p.s[p.i]) {
		p.i++
	}
}

func (p *refP) fail() mval {
	p.ok = false
	return mval{kind: TypeUndefined}
}

func refHex(c byte) (int, bool) {
	switch {
	case c >= '0' && c <= '9':
		return int(c - '0'), true
	case c >= 'a' && c <= 'f':
		return int(c-'a') + 10, true
	case c >= 'A' && c <= 'F':
		return int(c-'A') + 10, true
	}
	return 0, false
}

func (p *refP) hex4() (int, bool) {
	if p.i+4 > len(p.s) {
		return 0, false
	}
	v := 0
	for k := 0; k < 4; k++ {
		h, ok := refHex(p.s[p.i+k])
		if !ok {
			return 0, false
		}
		v = v*16 + h
	}
	p.i += 4
	return v, true
}

// str parses a string token starting at the opening quote; returns the decoded bytes.
func (p *refP) str() string {
	if p.i >= len(p.s) || p.s[p.i] != '"' {
		p.ok = false
		return ""
	}
	p.i++
	out := ""
	for {
		if p.i >= len(p.s) {
			p.ok = false
			return ""
		}
		c := p.s[p.i]
		if c == '"' {
			p.i++
			return out
		}
		if c < 0x20 {
			p.ok = false // raw control characters are not allowed in JSON strings
			return ""
		}
		if c != '\\' {
			out += string([]byte{c})
			p.i++
			continue
		}
		p.i++
		if p.i >= len(p.s) {
			p.ok = false
			return ""
		}
		e := p.s[p.i]
		p.i++
		switch e {
		case '"':
			out += "\""
		case '\\':
			out += "\\"
		case '/':
			out += "/"
		case 'b':
			out += "\b"
		case 'f':
			out += "\f"
		case 'n':
			out += "\n"
		case 'r':
			out += "\r"
		case 't':
			out += "\t"
		case 'u':
			u, ok := p.hex4()
			if !ok {
				p.ok = false
				return ""
			}
			r := rune(u)
			if u >= 0xD800 && u <= 0xDBFF {
				// high surrogate: must be followed by \uDC00..DFFF
				if p.i+6 <= len(p.s) && p.s[p.i] == '\\' && p.s[p.i+1] == 'u' {
					p.i += 2
					lo, ok2 := p.hex4()
					if !ok2 || lo < 0xDC00 || lo > 0xDFFF {
						p.ok = false
						return ""
					}
					r = rune(0x10000 + (u-0xD800)<<10 + (lo - 0xDC00))
				} else {
					p.ok = false // lone surrogate: outside the compared domain
					return ""
				}
			} else if u >= 0xDC00 && u <= 0xDFFF {
				p.ok = false
				return ""
			}
			out += string(r)
		default:
			p.ok = false
			return ""
		}
	}
}

func refIsDigit(c byte) bool { return c >= '0' && c <= '9' }

func (p *refP) num() mval {
	start := p.i
	neg := false
	if p.i < len(p.s) && p.s[p.i] == '-' {
		neg = true
		p.i++
	}
	if p.i >= len(p.s) || !refIsDigit(p.s[p.i]) {
		return p.fail()
	}
	ds := p.i
	if p.s[p.i] == '0' {
		p.i++
	} else {
		for p.i < len(p.s) && refIsDigit(p.s[p.i]) {
			p.i++
		}
	}
	de := p.i
	isInt := true
	if p.i < len(p.s) && p.s[p.i] == '.' {
		isInt = false
		p.i++
		if p.i >= len(p.s) || !refIsDigit(p.s[p.i]) {
			return p.fail()
		}
		for p.i < len(p.s) && refIsDigit(p.s[p.i]) {
			p.i++
		}
	}
	if p.i < len(p.s) && (p.s[p.i] == 'e' || p.s[p.i] == 'E') {
		isInt = false
		p.i++
		if p.i < len(p.s) && (p.s[p.i] == '+' || p.s[p.i] == '-') {
			p.i++
		}
		if p.i >= len(p.s) || !refIsDigit(p.s[p.i]) {
			return p.fail()
		}
		for p.i < len(p.s) && refIsDigit(p.s[p.i]) {
			p.i++
		}
	}
	text := p.s[start:p.i]
	if isInt && de-ds <= 18 {
		v := 0
		for k := ds; k < de; k++ {
			v = v*10 + int(p.s[k]-'0')
		}
		if neg {
			v = -v
		}
		return mval{kind: TypeInt, i: v}
	}
	if isInt {
		// 19+ digits: int iff it fits in 64 bits
		v := uint64(0)
		fits := true
		for k := ds; k < de; k++ {
			d := uint64(p.s[k] - '0')
			if v > (1<<64-1-d)/10 {
				fits = false
			}
			v = v*10 + d
		}
		if fits && !neg && v <= 1<<63-1 {
			return mval{kind: TypeInt, i: int(v)}
		}
		if fits && neg && v <= 1<<63 {
			return mval{kind: TypeInt, i: -int(v)}
		}
	}
	return mval{kind: TypeFloat, f: verifPF(text)}
}

func (p *refP) lit(word string) bool {
	if p.i+len(word) <= len(p.s) && p.s[p.i:p.i+len(word)] == word {
		p.i += len(word)
		return true
	}
	return false
}

// refDeep: nesting the reference decoder follows beyond its default of 8 levels (set by the scale harnesses,
// whose documents are concrete in shape; 0 otherwise, so that symbolic documents stay bounded).
var refDeep int

func (p *refP) value(depth int) mval {
	p.ws()
	if p.i >= len(p.s) || (depth > 8 && depth > refDeep) {
		return p.fail()
	}
	c := p.s[p.i]
	switch {
	case c == '"':
		s := p.str()
		return mval{kind: TypeString, s: s}
	case c == '[':
		p.i++
		m := mval{kind: TypeList}
		p.ws()
		if p.i < len(p.s) && p.s[p.i] == ']' {
			p.i++
			return m
		}
		for {
			e := p.value(depth + 1)
			if !p.ok {
				return p.fail()
			}
			m.elem = append(m.elem, e)
			p.ws()
			if p.i >= len(p.s) {
				return p.fail()
			}
			if p.s[p.i] == ',' {
				p.i++
				continue
			}
			if p.s[p.i] == ']' {
				p.i++
				return m
			}
			return p.fail()
		}
	case c == '{':
		p.i++
		m := mval{kind: TypeObject}
		p.ws()
		if p.i < len(p.s) && p.s[p.i] == '}' {
			p.i++
			return m
		}
		for {
			p.ws()
			k := p.str()
			if !p.ok {
				return p.fail()
			}
			p.ws()
			if p.i >= len(p.s) || p.s[p.i] != ':' {
				return p.fail()
			}
			p.i++
			e := p.value(depth + 1)
			if !p.ok {
				return p.fail()
			}
			// last duplicate wins
			if j := mFindKey(m, k); j >= 0 {
				m.elem[j] = e
			} else {
				m.keys = append(m.keys, k)
				m.elem = append(m.elem, e)
			}
			p.ws()
			if p.i >= len(p.s) {
				return p.fail()
			}
			if p.s[p.i] == ',' {
				p.i++
				continue
			}
			if p.s[p.i] == '}' {
				p.i++
				return m
			}
			return p.fail()
		}
	case c == 't':
		if p.lit("true") {
			return mval{kind: TypeBool, b: true}
		}
	case c == 'f':
		if p.lit("false") {
			return mval{kind: TypeBool, b: false}
		}
	case c == 'n':
		if p.lit("null") {
			return mval{kind: TypeNil}
		}
	case c == '-' || refIsDigit(c):
		return p.num()
	}
	return p.fail()
}

// refParse decodes one complete JSON text.
func refParse(s string) (mval, bool) {
	p := &refP{s: s, ok: true}
	v := p.value(0)
	if !p.ok {
		return v, false
	}
	p.ws()
	if p.i != len(p.s) {
		return v, false
	}
	return v, true
}
