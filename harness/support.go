package anytype

// Harness primitives. In the symbolic executor (gosmt) these functions are
// intercepted by name; the bodies below are what the same harness does when it
// is compiled natively for replay / translator validation.

import (
	"fmt"
	"math"
	"os"
	"reflect"
	"runtime"
	"strconv"
	"strings"
)

type verifInput struct {
	Kind string `json:"kind"`
	Bits uint64 `json:"bits"`
}

type verifAbort struct{ why string }
type verifFail struct{ msg string }

var (
	verifInputs   []verifInput
	verifPos      int
	verifObserved []string
	verifFailures []string
	verifTierVal  int
	verifTmpFiles []string
)

func verifReset(in []verifInput) {
	verifInputs = in
	verifPos = 0
	verifObserved = nil
	verifFailures = nil
}

func verifNext(kind string) uint64 {
	if verifPos >= len(verifInputs) {
		panic(verifAbort{"replay vector exhausted (path diverged)"})
	}
	in := verifInputs[verifPos]
	verifPos++
	return in.Bits
}

func nondetBool() bool       { return verifNext("bool")&1 == 1 }
func nondetInt() int         { return int(verifNext("int64")) }
func nondetInt64() int64     { return int64(verifNext("int64")) }
func nondetInt32() int32     { return int32(verifNext("int32")) }
func nondetRune() rune       { return rune(int32(verifNext("int32"))) }
func nondetInt16() int16     { return int16(verifNext("int16")) }
func nondetInt8() int8       { return int8(verifNext("int8")) }
func nondetUint() uint       { return uint(verifNext("uint64")) }
func nondetUint64() uint64   { return verifNext("uint64") }
func nondetUint32() uint32   { return uint32(verifNext("uint32")) }
func nondetUint16() uint16   { return uint16(verifNext("uint16")) }
func nondetUint8() uint8     { return uint8(verifNext("uint8")) }
func nondetByte() byte       { return byte(verifNext("uint8")) }
func nondetFloat64() float64 { return math.Float64frombits(verifNext("float64")) }
func nondetFloat32() float32 { return math.Float32frombits(uint32(verifNext("float32"))) }

// nondetIntRange returns a value in [lo,hi]; the executor forks over all of them.
func nondetIntRange(lo, hi int) int {
	v := int(int64(verifNext("choice")))
	if v < lo || v > hi {
		panic(verifAbort{"choice out of range"})
	}
	return v
}

func verifAssume(c bool) {
	if !c {
		panic(verifAbort{"assumption false"})
	}
}

func verifAssert(c bool, msg string) {
	if !c {
		verifFailures = append(verifFailures, msg)
	}
}

func verifReach(label string) {}

func verifTier() int { return verifTierVal }

func verifBound(name string, v int) {}

func verifMapOrder(mode int) {}

// verifSymbolic reports whether the harness runs inside the symbolic executor.
func verifSymbolic() bool { return false }

func verifCatch(f func()) (panicked bool) {
	defer func() {
		if r := recover(); r != nil {
			switch r.(type) {
			case verifAbort:
				panic(r)
			}
			panicked = true
		}
	}()
	f()
	return false
}

func verifObserve(label string, vals ...any) {
	var sb strings.Builder
	sb.WriteString(label)
	for _, v := range vals {
		sb.WriteString(" ")
		switch v := v.(type) {
		case nil:
			sb.WriteString("nil")
		case bool:
			sb.WriteString(strconv.FormatBool(v))
		case int:
			sb.WriteString(strconv.Itoa(v))
		case int64:
			sb.WriteString(strconv.FormatInt(v, 10))
		case int32:
			sb.WriteString(strconv.FormatInt(int64(v), 10))
		case int16:
			sb.WriteString(strconv.FormatInt(int64(v), 10))
		case int8:
			sb.WriteString(strconv.FormatInt(int64(uint8(v)), 10))
		case uint8:
			sb.WriteString(strconv.FormatInt(int64(v), 10))
		case uint64:
			sb.WriteString(strconv.FormatInt(int64(v), 10))
		case uint:
			sb.WriteString(strconv.FormatInt(int64(v), 10))
		case Type:
			sb.WriteString(strconv.FormatInt(int64(v), 10))
		case float64:
			fmt.Fprintf(&sb, "f%016x", math.Float64bits(v))
		case float32:
			fmt.Fprintf(&sb, "f%08x", math.Float32bits(v))
		case string:
			sb.WriteString("\"")
			for i := 0; i < len(v); i++ {
				fmt.Fprintf(&sb, "%02x", v[i])
			}
			sb.WriteString("\"")
		default:
			fmt.Fprintf(&sb, "<%T>", v)
		}
	}
	verifObserved = append(verifObserved, sb.String())
}

// verifSetFile makes path hold data (exists) or be absent, for ParseFile.
func verifSetFile(path string, data string, exists bool) {
	if exists {
		if err := os.WriteFile(path, []byte(data), 0o644); err != nil {
			panic(verifAbort{"cannot write " + path})
		}
		verifTmpFiles = append(verifTmpFiles, path)
	} else {
		os.Remove(path)
	}
}

// verifSameBacking: do two lists share their top-level backing array? (lemma only)
// Natively found by reflection: the first slice-typed field of the struct behind each value, so the harness
// does not name the implementation's types or fields.
func verifSameBacking(a, b any) bool {
	end := func(v any) (uintptr, bool) {
		rv := reflect.ValueOf(v)
		for rv.IsValid() && (rv.Kind() == reflect.Ptr || rv.Kind() == reflect.Interface) {
			if rv.IsNil() {
				return 0, false
			}
			rv = rv.Elem()
		}
		if !rv.IsValid() || rv.Kind() != reflect.Struct {
			return 0, false
		}
		for i := 0; i < rv.NumField(); i++ {
			f := rv.Field(i)
			if f.Kind() == reflect.Slice {
				if f.Cap() == 0 {
					return 0, false
				}
				return f.Pointer() + uintptr(f.Cap())*f.Type().Elem().Size(), true
			}
		}
		return 0, false
	}
	ea, ok1 := end(a)
	eb, ok2 := end(b)
	return ok1 && ok2 && ea == eb
}

// verifUF is an arbitrary but fixed pure function (uninterpreted in the solver).
func verifUF(a, b int) int { return a*1000003 ^ b*7919 + 17 }

// verifPF is the float-text contract function: natively the real ParseFloat.
func verifPF(s string) float64 {
	v, _ := strconv.ParseFloat(s, 64)
	return v
}

// non-forking boolean connectives (plain && / || fork the symbolic executor)
func verifAnd(a, b bool) bool     { return a && b }
func verifOr(a, b bool) bool      { return a || b }
func verifImplies(a, b bool) bool { return !a || b }
func verifIteInt(c bool, a, b int) int {
	if c {
		return a
	}
	return b
}
func verifFloatBits(f float64) uint64 { return math.Float64bits(f) }

func verifIteFloat(c bool, a, b float64) float64 {
	if c {
		return a
	}
	return b
}

// ---- concurrency (C15) ----

// verifSchedAll switches the executor to exhaustive schedule exploration (with a bound on
// preemptions per path). Natively the real scheduler runs.
func verifSchedAll(maxPreemptions int) {}

// verifYield marks a scheduling point inside a harness callback.
func verifYield() { runtime.Gosched() }

// verifRaces: number of happens-before data races seen by the executor's detector so far
// (natively the race detector reports them).
func verifRaces() int { return 0 }

func verifTrackWrites() {}

func verifWroteInto(root any) bool { return false }
