package anytype

// C19 — derived structures keep their identity through fluent calls and storage.

type hDList struct {
	List
	tag int
}

type hDDList struct {
	*hDList
	extra string
}

type hDObject struct {
	Object
	tag int
}

type hDDObject struct {
	*hDObject
	extra string
}

// hDerivedList returns a derived list (one or two embedding levels) registered with Init.
func hDerivedList(values ...any) List {
	switch nondetIntRange(0, 2) {
	case 0:
		d := &hDList{List: NewList(values...), tag: 7}
		d.Init(d)
		return d
	case 1:
		d := &hDDList{hDList: &hDList{List: NewList(values...), tag: 7}, extra: "x"}
		d.Init(d)
		return d
	}
	// constructor chaining as in the README: the intermediate level registers itself first, the outer
	// level registers again — the last registration is the outer value
	inner := &hDList{List: NewList(values...), tag: 7}
	inner.Init(inner)
	d := &hDDList{hDList: inner, extra: "x"}
	d.Init(d)
	return d
}

func hDerivedObject(values ...any) Object {
	switch nondetIntRange(0, 2) {
	case 0:
		d := &hDObject{Object: NewObject(values...), tag: 7}
		d.Init(d)
		return d
	case 1:
		d := &hDDObject{hDObject: &hDObject{Object: NewObject(values...), tag: 7}, extra: "x"}
		d.Init(d)
		return d
	}
	inner := &hDObject{Object: NewObject(values...), tag: 7}
	inner.Init(inner)
	d := &hDDObject{hDObject: inner, extra: "x"}
	d.Init(d)
	return d
}

func H_C19_list_fluent() {
	a, b := nondetInt(), nondetInt()
	d := hDerivedList(a, b, NewObject("k", 1), NewList(5))
	verifAssert(d.Ego() == d, "Ego returns the registered outer value")
	var ret List
	noop := 0
	switch nondetIntRange(0, 22) {
	case 0:
		ret = d.Add(nondetInt())
	case 1:
		ret = d.Add()
	case 2:
		idx := nondetInt()
		verifAssume(verifAnd(idx >= 0, idx <= 4)) // includes index == n (delegates to Add)
		ret = d.Insert(idx, nondetInt())
	case 3:
		idx := nondetInt()
		verifAssume(verifAnd(idx >= 0, idx < 4))
		ret = d.Replace(idx, nondetInt())
	case 4:
		idx := nondetInt()
		verifAssume(verifAnd(idx >= 0, idx < 4))
		ret = d.Delete(idx)
	case 5:
		ret = d.Delete()
	case 6:
		ret = d.Pop()
	case 7:
		ret = d.Clear()
	case 8:
		d.Delete(2, 3)
		ret = d.Sort()
	case 9:
		ret = d.Reverse()
	case 10:
		ret = d.ForEach(func(i int, v any) { noop++ })
	case 11:
		ret = d.ForEachValue(func(v any) { noop++ })
	case 12:
		ret = d.ForEachObject(func(v Object) { noop++ })
	case 13:
		ret = d.ForEachList(func(v List) { noop++ })
	case 14:
		ret = d.ForEachString(func(v string) { noop++ })
	case 15:
		ret = d.ForEachBool(func(v bool) { noop++ })
	case 16:
		ret = d.ForEachInt(func(v int) { noop++ })
	case 17:
		ret = d.ForEachFloat(func(v float64) { noop++ })
	case 18:
		ret = d.ForEachAsync(func(i int, v any) {})
	case 19:
		// SetTF: leaf replace, leaf append with padding, nested through object and list
		switch nondetIntRange(0, 4) {
		case 0:
			ret = d.SetTF("#1", nondetInt())
		case 1:
			ret = d.SetTF("#6", nondetInt())
		case 2:
			ret = d.SetTF("#2.k", nondetInt())
		case 3:
			ret = d.SetTF("#3#0", nondetInt())
		default:
			ret = d.SetTF("#0.new#1", nondetInt())
		}
	case 20:
		switch nondetIntRange(0, 2) {
		case 0:
			ret = d.UnsetTF("#1")
		case 1:
			ret = d.UnsetTF("#2.k")
		default:
			ret = d.UnsetTF("#3#0")
		}
	case 21:
		ret = d.Clear().Add(1).Insert(0, 2).Replace(0, 3).Reverse().Pop()
	default:
		ret = d.Ego()
	}
	verifAssert(ret == d, "a fluent List method returns the registered outer value, not the embedded list")
	verifAssert(d.Ego() == d, "Ego still returns the registered outer value")
	verifReach("end")
}

func H_C19_object_fluent() {
	d := hDerivedObject("a", nondetInt(), "o", NewObject("k", 1), "l", NewList(5), "s", "x", "b", true, "f", 1.5)
	verifAssert(d.Ego() == d, "Ego returns the registered outer value")
	var ret Object
	noop := 0
	switch nondetIntRange(0, 17) {
	case 0:
		ret = d.Set(hBytesStr(1), nondetInt())
	case 1:
		ret = d.Set()
	case 2:
		ret = d.Unset("a")
	case 3:
		ret = d.Unset()
	case 4:
		ret = d.Clear()
	case 5:
		ret = d.ForEach(func(k string, v any) { noop++ })
	case 6:
		ret = d.ForEachValue(func(v any) { noop++ })
	case 7:
		ret = d.ForEachObject(func(v Object) { noop++ })
	case 8:
		ret = d.ForEachList(func(v List) { noop++ })
	case 9:
		ret = d.ForEachString(func(v string) { noop++ })
	case 10:
		ret = d.ForEachBool(func(v bool) { noop++ })
	case 11:
		ret = d.ForEachInt(func(v int) { noop++ })
	case 12:
		ret = d.ForEachFloat(func(v float64) { noop++ })
	case 13:
		ret = d.ForEachAsync(func(k string, v any) {})
	case 14:
		switch nondetIntRange(0, 3) {
		case 0:
			ret = d.SetTF(".a", nondetInt())
		case 1:
			ret = d.SetTF(".o.k", nondetInt())
		case 2:
			ret = d.SetTF(".l#3", nondetInt())
		default:
			ret = d.SetTF(".new.x#1", nondetInt())
		}
	case 15:
		switch nondetIntRange(0, 2) {
		case 0:
			ret = d.UnsetTF(".a")
		case 1:
			ret = d.UnsetTF(".o.k")
		default:
			ret = d.UnsetTF(".l#0")
		}
	case 16:
		ret = d.Clear().Set("z", 1).Unset("z")
	default:
		ret = d.Ego()
	}
	verifAssert(ret == d, "a fluent Object method returns the registered outer value, not the embedded object")
	verifReach("end")
}

// a stored derived value is handed back as the identical outer value by every retrieval path
func H_C19_stored() {
	dl := hDerivedList(nondetInt())
	do := hDerivedObject("q", nondetInt())
	lvl := nondetIntRange(0, 1)
	pl := NewList(0, dl, do)
	po := NewObject("l", dl, "o", do)
	var root any
	var lp, op string // tree-form prefix of the parent list / object
	if lvl == 0 {
		root = nil
	} else {
		// one level down
		root = NewObject("in", pl, "io", po)
		lp, op = ".in", ".io"
	}
	// every way a derived value can get into a container stores the value itself
	viaOf := NewListOf(dl, 3)
	viaFrom := NewListFrom([]any{do, dl})
	viaObjFrom := NewObjectFrom(map[string]any{"d": do})
	viaIns := NewList(1, 2).Insert(1, do).Replace(0, dl).Add(do)
	viaTF := NewObject().SetTF(".a#1", dl).SetTF(".b.c", do)
	viaTF2 := NewList(1).SetTF("#3", dl).SetTF("#5", do) // strictly past the end of a non-empty list
	plainL, plainO := NewList(dl.Slice()...), NewObject("q", do.Get("q"))
	viaOver := NewObject("l", plainL, "o", plainO).Set("l", dl).SetTF(".o", do) // over plain containers with the same content
	viaOverL := NewList(plainL, plainO).Replace(0, dl).SetTF("#1", do)
	vok := viaOf.Get(0) == any(dl) && viaOf.Get(1) == any(dl) && viaOf.GetList(2) == dl
	vok = vok && viaFrom.GetObject(0) == do && viaFrom.GetList(1) == dl && viaObjFrom.GetObject("d") == do
	vok = vok && viaIns.GetList(0) == dl && viaIns.GetObject(1) == do && viaIns.GetObject(3) == do
	vok = vok && viaTF.GetTF(".a#1") == any(dl) && viaTF.GetTF(".b.c") == any(do)
	vok = vok && viaTF2.Count() == 6 && viaTF2.Get(3) == any(dl) && viaTF2.Get(5) == any(do)
	vok = vok && viaOver.Get("l") == any(dl) && viaOver.Get("o") == any(do) && viaOverL.Get(0) == any(dl) && viaOverL.Get(1) == any(do)
	verifAssert(vok, "a derived value stored through any constructor or mutator (NewListOf, NewListFrom, NewObjectFrom, Insert, Replace, Add, SetTF) is handed back as the identical outer value")
	// tree-form writes and removals that pass through a stored derived value keep it in place
	host := NewObject("d", do, "l", dl)
	host.SetTF(".d.extra", 1).SetTF(".l#5", 2).UnsetTF(".d.extra")
	hostL := NewList(do, dl)
	hostL.SetTF("#0.extra", 1).SetTF("#1#5", 2).UnsetTF("#0.extra")
	verifAssert(host.Get("d") == any(do) && host.Get("l") == any(dl) && hostL.Get(0) == any(do) && hostL.Get(1) == any(dl), "a tree-form write below a stored derived value reuses it (the identical outer value stays stored)")
	// storing a two-level derived value through its embedded-level pointer (e.g. by a method of the intermediate
	// type that adds its receiver to a container) does not change what is registered: Ego and the fluent
	// methods of the derived value still return the outer value. (What the container hands back for a stored
	// embedded-level pointer is not judged: the property speaks of stored outer values.)
	if ddl, isDD := dl.(*hDDList); isDD {
		if ddo, isDDO := do.(*hDDObject); isDDO {
			NewList(ddl.hDList, ddo.hDObject)
			NewObject("l", ddl.hDList, "o", ddo.hDObject).Set("l2", ddl.hDList)
			NewList().Add(ddo.hDObject).Insert(0, ddl.hDList)
			eok := dl.Ego() == dl && do.Ego() == do && dl.Reverse() == dl && do.Unset("nope") == do
			verifAssert(eok, "storing a derived value through its embedded-level pointer leaves its registration alone: Ego and fluent methods still return the outer value")
		}
	}
	ok := true
	ok = ok && pl.Get(1) == any(dl) && pl.Get(2) == any(do)
	ok = ok && pl.GetList(1) == dl && pl.GetObject(2) == do
	ok = ok && po.Get("l") == any(dl) && po.Get("o") == any(do)
	ok = ok && po.GetList("l") == dl && po.GetObject("o") == do
	verifAssert(ok, "Get and the typed getters return the identical outer value")
	ok = pl.GetTF("#1") == any(dl) && pl.GetTF("#2") == any(do) && po.GetTF(".l") == any(dl) && po.GetTF(".o") == any(do)
	if lvl == 1 {
		r := root.(Object)
		ok = ok && r.GetTF(lp+"#1") == any(dl) && r.GetTF(lp+"#2") == any(do) && r.GetTF(op+".l") == any(dl) && r.GetTF(op+".o") == any(do)
	}
	verifAssert(ok, "tree-form reads return the identical outer value")
	var seenL []List
	var seenO []Object
	pl.ForEachList(func(x List) { seenL = append(seenL, x) })
	pl.ForEachObject(func(x Object) { seenO = append(seenO, x) })
	po.ForEachList(func(x List) { seenL = append(seenL, x) })
	po.ForEachObject(func(x Object) { seenO = append(seenO, x) })
	verifAssert(len(seenL) == 2 && seenL[0] == dl && seenL[1] == dl && len(seenO) == 2 && seenO[0] == do && seenO[1] == do, "typed iteration passes the identical outer value")
	ls, os := pl.ListSlice(), pl.ObjectSlice()
	verifAssert(len(ls) == 1 && ls[0] == dl && len(os) == 1 && os[0] == do, "typed slices hold the identical outer value")
	fl := pl.FilterLists(func(x List) bool { return true })
	fo := pl.FilterObjects(func(x Object) bool { return true })
	verifAssert(fl.Count() == 1 && fl.GetList(0) == dl && fo.Count() == 1 && fo.GetObject(0) == do, "typed filters keep the identical outer value")
	sl := pl.Slice()
	di := po.Dict()
	vs := po.Values()
	verifAssert(sl[1] == any(dl) && sl[2] == any(do) && di["l"] == any(dl) && di["o"] == any(do) && vs.Contains(dl) && vs.Contains(do), "Slice, Dict and Values hold the identical outer value")
	var anyL, anyO any
	pl.ForEach(func(i int, v any) {
		if i == 1 {
			anyL = v
		}
		if i == 2 {
			anyO = v
		}
	})
	verifAssert(anyL == any(dl) && anyO == any(do), "ForEach passes the identical outer value")
	verifAssert(pl.Contains(dl) && pl.IndexOf(do) == 2 && po.Contains(do) && po.KeyOf(dl) == "l", "Contains/IndexOf/KeyOf find the outer value by identity")
	verifReach("end")
}
