package anytype

import (
	"runtime"
	"sync"
)

// C15 — async variants equal their sequential counterparts under every schedule.

func hC15Bounds() (maxN, preempt int) {
	maxN, preempt = 2, 2
	if verifTier() > 0 {
		maxN, preempt = 3, 2
	}
	verifBound("WORKERS", maxN)
	verifBound("PREEMPTIONS", preempt)
	return
}

func H_C15_foreach_async_list() {
	maxN, pre := hC15Bounds()
	n := nondetIntRange(0, maxN)
	l := NewList()
	vals := make([]int, n)
	for i := 0; i < n; i++ {
		vals[i] = nondetInt()
		l.Add(vals[i])
	}
	before := hSnapList(l, false)
	seen := make([]int, n)
	got := make([]int, n)
	finished := make([]bool, n)
	bad := false
	verifSchedAll(pre)
	ret := l.ForEachAsync(func(i int, v any) {
		verifYield()
		if i < 0 || i >= n {
			bad = true
			return
		}
		seen[i]++
		x, isInt := v.(int)
		if !isInt {
			bad = true
		}
		got[i] = x
		verifYield()
		finished[i] = true
	})
	verifAssert(ret == l, "ForEachAsync returns the list")
	verifAssert(!bad, "ForEachAsync passes valid indices and the elements' values")
	for i := 0; i < n; i++ {
		verifAssert(finished[i], "ForEachAsync returns only after every call has returned")
		verifAssert(seen[i] == 1, "ForEachAsync calls the function exactly once per element")
		verifAssert(got[i] == vals[i], "ForEachAsync pairs each index with its own element")
	}
	verifAssert(verifRaces() == 0, "no data race in ForEachAsync under any explored schedule")
	verifAssert(hSameSlots(before, hSnapList(l, false)), "ForEachAsync does not modify the list")
	verifReach("end")
}

func H_C15_foreach_async_object() {
	maxN, pre := hC15Bounds()
	n := nondetIntRange(0, maxN)
	keys := []string{"a", "b", "c"}[:n]
	o := NewObject()
	vals := make([]int, n)
	for i := 0; i < n; i++ {
		vals[i] = nondetInt()
		o.Set(keys[i], vals[i])
	}
	seen := make([]int, n)
	got := make([]int, n)
	finished := make([]bool, n)
	bad := false
	verifSchedAll(pre)
	ret := o.ForEachAsync(func(k string, v any) {
		verifYield()
		i := -1
		for j := range keys {
			if keys[j] == k {
				i = j
			}
		}
		if i < 0 {
			bad = true
			return
		}
		seen[i]++
		x, isInt := v.(int)
		if !isInt {
			bad = true
		}
		got[i] = x
		verifYield()
		finished[i] = true
	})
	verifAssert(ret == o, "ForEachAsync returns the object")
	verifAssert(!bad, "ForEachAsync passes existing keys and their values")
	for i := 0; i < n; i++ {
		verifAssert(finished[i], "ForEachAsync returns only after every call has returned")
		verifAssert(seen[i] == 1, "ForEachAsync calls the function exactly once per field")
		verifAssert(got[i] == vals[i], "ForEachAsync pairs each key with its own value")
	}
	verifAssert(verifRaces() == 0, "no data race in ForEachAsync under any explored schedule")
	verifAssert(o.Count() == n, "ForEachAsync does not modify the object")
	verifReach("end")
}

func H_C15_map_async_list() {
	maxN, pre := hC15Bounds()
	n := nondetIntRange(0, maxN)
	l := NewList()
	for i := 0; i < n; i++ {
		l.Add(nondetInt())
	}
	f := func(i int, v any) any {
		x, _ := v.(int)
		return verifUF(i, x)
	}
	want := l.Map(f)
	verifSchedAll(pre)
	got := l.MapAsync(func(i int, v any) any {
		verifYield()
		r := f(i, v)
		verifYield()
		return r
	})
	verifAssert(got.Count() == n, "MapAsync yields one result per element")
	verifAssert(got != List(l), "MapAsync returns a new list, as Map does (also for the empty list)")
	for i := 0; i < n && i < got.Count(); i++ {
		verifAssert(got.TypeOf(i) == TypeInt && got.GetInt(i) == want.GetInt(i), "MapAsync returns exactly what Map returns for the same pure function")
	}
	verifAssert(verifRaces() == 0, "no data race in MapAsync under any explored schedule")
	verifReach("end")
}

func H_C15_map_async_object() {
	maxN, pre := hC15Bounds()
	n := nondetIntRange(0, maxN)
	keys := []string{"a", "b", "c"}[:n]
	o := NewObject()
	for i := 0; i < n; i++ {
		o.Set(keys[i], nondetInt())
	}
	f := func(k string, v any) any {
		x, _ := v.(int)
		return verifUF(len(k)+int(k[0]), x)
	}
	want := o.Map(f)
	verifSchedAll(pre)
	got := o.MapAsync(func(k string, v any) any {
		verifYield()
		r := f(k, v)
		verifYield()
		return r
	})
	verifAssert(got.Count() == n, "MapAsync yields one result per field")
	verifAssert(got != Object(o), "MapAsync returns a new object, as Map does (also for the empty object)")
	for i := 0; i < n; i++ {
		verifAssert(got.KeyExists(keys[i]) && got.TypeOf(keys[i]) == TypeInt && got.GetInt(keys[i]) == want.GetInt(keys[i]), "MapAsync returns exactly what Map returns for the same pure function")
	}
	verifAssert(verifRaces() == 0, "no data race in MapAsync under any explored schedule")
	verifReach("end")
}

// two goroutines run non-mutating operations on one shared, unmodified container:
// no data race, and both see the sequential result
const hNumReaderOps = 22

func hReaderOp(l List, b List, o Object, op int) any {
	switch op {
	case 0:
		return l.Concat(b)
	case 1:
		return l.SubList(0, 0)
	case 2:
		return l.Clone()
	case 3:
		return l.String()
	case 4:
		return l.Equals(b)
	case 5:
		return l.Filter(func(x any) bool { return true })
	case 6:
		return l.Map(func(i int, x any) any { return x })
	case 7:
		return l.Count() + l.IntSum() + l.IndexOf(b)
	case 8:
		return l.Contains(b)
	case 9:
		return l.TypeOfTF("#0")
	case 10:
		return l.Get(0)
	case 11:
		return l.Slice()
	case 12:
		return l.NativeSlice()
	case 13:
		return l.Concat(l)
	case 14:
		return o.Clone()
	case 15:
		return o.String()
	case 16:
		return o.Keys().Count() + o.Values().Count() + len(o.Dict())
	case 17:
		return o.Merge(o)
	case 18:
		return o.Pluck("a")
	case 19:
		return o.TypeOfTF(".l#0")
	case 20:
		return o.Equals(o.Clone())
	case 21:
		return l.FormatString(2)
	case 22:
		// the async variants with pure callbacks are non-mutating operations too
		l.ForEachAsync(func(i int, v any) {})
		return l.Count()
	case 23:
		return l.MapAsync(func(i int, v any) any { return v })
	case 24:
		o.ForEachAsync(func(k string, v any) {})
		return o.Count()
	default:
		return o.MapAsync(func(k string, v any) any { return v })
	}
}

// hReaderFixture builds the shared containers (twice from the same symbolic values: the sequential reference
// runs on one copy, the concurrent calls on the other, which no operation has touched before — a lazily
// filled cache would be written for the first time under concurrency)
func hReaderFixture(x int, spare int) (List, List, Object) {
	b := NewList(x)
	l := hListWithSpare(3, spare)
	l.Replace(0, x).Replace(1, b).Replace(2, "s\n") // every scalar kind that has per-value state worth caching is present
	o := NewObject("a", x, "l", l, "s", "t")
	return l, b, o
}

func H_C15_concurrent_readers() {
	verifBound("READERS", 2)
	x := nondetInt()
	verifAssume(verifAnd(x >= 0, x < 10))
	spare := nondetIntRange(0, 1)
	lr, br, or := hReaderFixture(x, spare)
	l, b, o := hReaderFixture(x, spare)
	op1 := nondetIntRange(0, hNumReaderOps-1)
	op2 := op1
	if nondetIntRange(0, 1) == 1 {
		op2 = []int{0, 2, 3, 10, 14}[nondetIntRange(0, 4)]
	}
	want1 := hReaderOp(lr, br, or, op1)
	want2 := hReaderOp(lr, br, or, op2)
	var r1, r2 any
	var wg sync.WaitGroup
	verifSchedAll(1)
	wg.Add(2)
	go func() {
		r1 = hReaderOp(l, b, o, op1)
		wg.Done()
	}()
	go func() {
		r2 = hReaderOp(l, b, o, op2)
		wg.Done()
	}()
	wg.Wait()
	verifAssert(verifRaces() == 0, "concurrent non-mutating operations on a shared unmodified container are free of data races")
	verifAssert(hSameResult(want1, r1) && hSameResult(want2, r2), "concurrent non-mutating operations return the same results as sequentially")
	verifReach("end")
}

func hSameResult(a, b any) bool {
	switch x := a.(type) {
	case []any:
		y, ok := b.([]any)
		return ok && len(x) == len(y)
	case List:
		y, ok := b.(List)
		return ok && hExact(hSnapAny(x), hSnapAny(y))
	case Object:
		y, ok := b.(Object)
		return ok && hExact(hSnapAny(x), hSnapAny(y))
	}
	if sa, isS := a.(string); isS {
		// serialised texts: two serialisations of one object may list the fields in different orders, so the
		// texts are compared as data
		sb, ok := b.(string)
		if !ok {
			return false
		}
		pa, oka := refParse(sa)
		pb, okb := refParse(sb)
		return oka && okb && hExact(pa, pb)
	}
	return a == b
}

// a callback that itself runs a non-mutating async call on the same container (re-entrancy): the outer
// call still completes, with exactly one call per element
func H_C15_reentrant_async() {
	x := nondetInt()
	l := NewList(x, 2)
	o := NewObject("a", x, "b", 2)
	outer, inner := 0, 0
	var mu sync.Mutex
	pre := 0
	if verifTier() > 0 {
		pre = 1
	}
	verifBound("PREEMPTIONS_NESTED", pre)
	verifSchedAll(pre)
	p := verifCatch(func() {
		switch nondetIntRange(0, 3) {
		case 0:
			l.ForEachAsync(func(i int, v any) {
				l.ForEachAsync(func(j int, w any) { mu.Lock(); inner++; mu.Unlock() })
				mu.Lock()
				outer++
				mu.Unlock()
			})
		case 1:
			o.ForEachAsync(func(k string, v any) {
				o.ForEachAsync(func(k2 string, w any) { mu.Lock(); inner++; mu.Unlock() })
				mu.Lock()
				outer++
				mu.Unlock()
			})
		case 2:
			o.ForEachAsync(func(k string, v any) {
				r := o.MapAsync(func(k2 string, w any) any { return w })
				mu.Lock()
				inner += r.Count()
				outer++
				mu.Unlock()
			})
		default:
			l.ForEachAsync(func(i int, v any) {
				r := l.MapAsync(func(j int, w any) any { return w })
				mu.Lock()
				inner += r.Count()
				outer++
				mu.Unlock()
			})
		}
	})
	verifAssert(!p, "an async call whose callback runs another non-mutating async call on the same container completes (no deadlock, no panic)")
	if !p {
		verifAssert(outer == 2 && inner == 4, "ForEachAsync calls the function exactly once per element, also when calls are nested")
	}
	verifAssert(verifRaces() == 0, "no data race in nested async calls under any explored schedule")
	verifReach("end")
}

// two goroutines run the same async call (pure callbacks: a non-mutating operation) on one shared container
func H_C15_concurrent_async_calls() {
	x := nondetInt()
	b := NewList(x)
	l := NewList(x, b)
	o := NewObject("a", x)
	op := 22 + nondetIntRange(0, 3)
	want := hReaderOp(l, b, o, op)
	var r1, r2 any
	var wg sync.WaitGroup
	verifSchedAll(1)
	wg.Add(2)
	go func() {
		r1 = hReaderOp(l, b, o, op)
		wg.Done()
	}()
	go func() {
		r2 = hReaderOp(l, b, o, op)
		wg.Done()
	}()
	wg.Wait()
	verifAssert(verifRaces() == 0, "concurrent non-mutating operations on a shared unmodified container are free of data races")
	verifAssert(hSameResult(want, r1) && hSameResult(want, r2), "concurrent non-mutating operations return the same results as sequentially")
	verifReach("end")
}

// MapAsync hands the function the elements themselves (the identical nested containers), as Map does
func H_C15_map_async_passes_elements() {
	inner := NewList(nondetInt())
	io := NewObject("q", 1)
	l := NewList(inner, io)
	o := NewObject("a", inner, "b", io)
	okL, okO := true, true
	var mu sync.Mutex
	verifSchedAll(0)
	rl := l.MapAsync(func(i int, v any) any {
		mu.Lock()
		okL = okL && ((i == 0 && v == any(inner)) || (i == 1 && v == any(io)))
		mu.Unlock()
		return v
	})
	ro := o.MapAsync(func(k string, v any) any {
		mu.Lock()
		okO = okO && ((k == "a" && v == any(inner)) || (k == "b" && v == any(io)))
		mu.Unlock()
		return v
	})
	verifAssert(okL && okO, "MapAsync passes each index/key with the value Get returns (the identical nested container)")
	verifAssert(rl.Get(0) == any(inner) && rl.Get(1) == any(io) && ro.Get("a") == any(inner) && ro.Get("b") == any(io), "MapAsync returns exactly what Map returns for the same pure function")
	// ForEachAsync likewise: the callback receives the stored containers themselves, as ForEach does
	feL, feO, nL, nO := true, true, 0, 0
	l.ForEachAsync(func(i int, v any) {
		mu.Lock()
		nL++
		feL = feL && ((i == 0 && v == any(inner)) || (i == 1 && v == any(io)))
		mu.Unlock()
	})
	o.ForEachAsync(func(k string, v any) {
		mu.Lock()
		nO++
		feO = feO && ((k == "a" && v == any(inner)) || (k == "b" && v == any(io)))
		mu.Unlock()
	})
	verifAssert(feL && feO && nL == 2 && nO == 2, "ForEachAsync passes each index/key with the value Get returns (the identical nested container)")
	verifReach("end")
}

// callbacks that wait for each other (a barrier: every callback signals that it has started and then waits
// until all have): ForEachAsync runs all calls concurrently, so the call completes, for every number of
// processors the environment offers
func H_C15_interdependent_callbacks() {
	n := nondetIntRange(1, 2)
	x := nondetInt()
	l := NewList()
	o := NewObject()
	for i := 0; i < n; i++ {
		l.Add(x)
		o.Set(string([]byte{byte('a' + i)}), x)
	}
	// every GOMAXPROCS setting: below, at and above the number of elements
	procs := []int{1, 2, 8}[nondetIntRange(0, 2)]
	old := runtime.GOMAXPROCS(procs)
	defer runtime.GOMAXPROCS(old)
	verifBound("GOMAXPROCS_SETTINGS", 3)
	var barrier sync.WaitGroup
	barrier.Add(n)
	calls := 0
	var mu sync.Mutex
	verifSchedAll(0)
	onList := nondetIntRange(0, 1) == 0
	p := verifCatch(func() {
		if onList {
			l.ForEachAsync(func(i int, v any) {
				barrier.Done()
				barrier.Wait()
				mu.Lock()
				calls++
				mu.Unlock()
			})
		} else {
			o.ForEachAsync(func(k string, v any) {
				barrier.Done()
				barrier.Wait()
				mu.Lock()
				calls++
				mu.Unlock()
			})
		}
	})
	verifAssert(!p, "ForEachAsync with callbacks that wait for each other completes (all calls run concurrently)")
	if !p {
		verifAssert(calls == n, "ForEachAsync calls the function exactly once per element")
	}
	verifReach("end")
}

// A derived object that overrides Get (it decorates what it returns): whatever ForEach/Map hand to the
// callback, the async variants hand over the same.
type hDecoratingObj struct {
	Object
}

func (ego *hDecoratingObj) Get(key string) any {
	if ego.Object.TypeOf(key) == TypeInt {
		return ego.Object.GetInt(key) + 1000
	}
	return ego.Object.Get(key)
}

func H_C15_derived_overriding_get() {
	x := nondetInt()
	verifAssume(verifAnd(x >= 0, x < 100))
	d := &hDecoratingObj{Object: NewObject("a", x, "b", "s")}
	d.Init(d)
	var mu sync.Mutex
	seq := map[string]any{}
	d.ForEach(func(k string, v any) { seq[k] = v })
	seqM := d.Map(func(k string, v any) any { return v })
	verifSchedAll(0)
	asy := map[string]any{}
	d.ForEachAsync(func(k string, v any) {
		mu.Lock()
		asy[k] = v
		mu.Unlock()
	})
	asyM := d.MapAsync(func(k string, v any) any { return v })
	verifAssert(len(seq) == 2 && len(asy) == 2 && seq["a"] == asy["a"] && seq["b"] == asy["b"], "ForEachAsync passes each key with the value ForEach passes")
	verifAssert(asyM.Count() == seqM.Count() && asyM.TypeOf("a") == seqM.TypeOf("a") && hSameResult(asyM.String(), seqM.String()), "MapAsync returns exactly what Map returns for the same pure function")
	verifReach("end")
}

// the shared container is itself the product of a deriving operation (Clone, SubList, Concat, the nested list of a
// cloned object) and nothing has been called on it yet: its very first use happens concurrently
func H_C15_concurrent_readers_of_derived() {
	verifBound("READERS", 2)
	x := nondetInt()
	verifAssume(verifAnd(x >= 0, x < 10))
	prov := nondetIntRange(0, 3)
	derive := func() (List, List, Object) {
		l0, b0, o0 := hReaderFixture(x, 0)
		switch prov {
		case 0:
			return l0.Clone(), b0, o0
		case 1:
			return l0.SubList(0, 3), b0, o0
		case 2:
			return l0.Concat(NewList()), b0, o0
		default:
			oc := o0.Clone()
			var nested List
			oc.ForEachList(func(v List) { nested = v }) // handed over by the walk; no method of it has run
			return nested, b0, oc
		}
	}
	lr, br, or := derive()
	l, b, o := derive()
	op1 := []int{1, 2, 3, 4, 7, 9, 10, 11, 13, 21}[nondetIntRange(0, 9)]
	op2 := op1
	if nondetBool() {
		op2 = []int{0, 2, 3, 10}[nondetIntRange(0, 3)]
	}
	want1 := hReaderOp(lr, br, or, op1)
	want2 := hReaderOp(lr, br, or, op2)
	var r1, r2 any
	var wg sync.WaitGroup
	verifSchedAll(1)
	wg.Add(2)
	go func() {
		r1 = hReaderOp(l, b, o, op1)
		wg.Done()
	}()
	go func() {
		r2 = hReaderOp(l, b, o, op2)
		wg.Done()
	}()
	wg.Wait()
	verifAssert(verifRaces() == 0, "the first, concurrent, non-mutating use of a derived container is free of data races")
	verifAssert(hSameResult(want1, r1) && hSameResult(want2, r2), "concurrent non-mutating operations on a derived container return the sequential results")
	verifReach("end")
}
