package anytype

// C09 — deriving operations are pure and their results own their top-level storage.

type hParty struct {
	name string
	l    List
	o    Object
	sl   []any // plain Go slice result
	dict map[string]any
	snap mval
}

func (p *hParty) take() {
	switch {
	case p.l != nil:
		p.snap = hSnapList(p.l, false)
	case p.o != nil:
		p.snap = hSnapObject(p.o, false)
	case p.sl != nil:
		m := mval{kind: TypeList}
		for _, e := range p.sl {
			m.elem = append(m.elem, hSnapAny1(e))
		}
		p.snap = m
	case p.dict != nil:
		m := mval{kind: TypeObject}
		for k, e := range p.dict {
			m.keys = append(m.keys, k)
			m.elem = append(m.elem, hSnapAny1(e))
		}
		p.snap = m
	}
}

// shallow snapshot of one value as handed out by Get
func hSnapAny1(v any) mval {
	switch c := v.(type) {
	case List:
		return mval{kind: TypeList, ref: c}
	case Object:
		return mval{kind: TypeObject, ref: c}
	}
	return hSnapAny(v)
}

func (p *hParty) unchanged() bool {
	old := p.snap
	p.take()
	now := p.snap
	p.snap = old
	if p.o != nil || p.dict != nil {
		// keyed comparison
		if len(old.elem) != len(now.elem) {
			return false
		}
		r := true
		for i := range old.elem {
			found := false
			for j := range now.elem {
				found = verifOr(found, verifAnd(old.keys[i] == now.keys[j], hSameShallow(old.elem[i], now.elem[j])))
			}
			r = verifAnd(r, found)
		}
		return r
	}
	return hSameSlots(old, now)
}

// one arbitrary top-level mutation of a party
func (p *hParty) mutate() {
	x := nondetInt()
	switch {
	case p.l != nil:
		n := p.l.Count()
		switch nondetIntRange(0, 6) {
		case 0:
			p.l.Add(x)
		case 1:
			p.l.Insert(0, x)
		case 2:
			if n == 0 {
				verifAssume(false)
			}
			p.l.Replace(nondetIntRange(0, n-1), x)
		case 3:
			if n == 0 {
				verifAssume(false)
			}
			p.l.Delete(nondetIntRange(0, n-1))
		case 4:
			if n == 0 {
				verifAssume(false)
			}
			p.l.Pop()
		case 5:
			if n == 0 {
				verifAssume(false)
			}
			p.l.Clear()
		default:
			if n < 2 {
				verifAssume(false)
			}
			p.l.Reverse()
		}
	case p.o != nil:
		switch nondetIntRange(0, 2) {
		case 0:
			p.o.Set(hBytesStr(1), x)
		case 1:
			ks := p.o.Keys()
			if ks.Count() == 0 {
				verifAssume(false)
			}
			p.o.Unset(ks.GetString(nondetIntRange(0, ks.Count()-1)))
		default:
			if p.o.Count() == 0 {
				verifAssume(false)
			}
			p.o.Clear()
		}
	case p.sl != nil:
		switch nondetIntRange(0, 1) {
		case 0:
			if len(p.sl) == 0 {
				verifAssume(false)
			}
			p.sl[nondetIntRange(0, len(p.sl)-1)] = x
		default:
			p.sl = append(p.sl[:0], x, x, x)[:0]
			p.sl = append(p.sl, x)
		}
	case p.dict != nil:
		switch nondetIntRange(0, 1) {
		case 0:
			p.dict[hBytesStr(1)] = x
		default:
			for k := range p.dict {
				delete(p.dict, k)
				break
			}
		}
	}
}

const hNumListDerive = 13

// derive a new value from list a (argument b where needed)
func hDeriveList(a, b List, d int) *hParty {
	switch d {
	case 0:
		return &hParty{name: "Concat", l: a.Concat(b)}
	case 1:
		return &hParty{name: "SubList", l: a.SubList(0, 0)}
	case 2:
		return &hParty{name: "Filter", l: a.Filter(func(x any) bool { return true })}
	case 3:
		return &hParty{name: "FilterInts", l: a.FilterInts(func(x int) bool { return true })}
	case 4:
		return &hParty{name: "FilterLists", l: a.FilterLists(func(x List) bool { return true })}
	case 5:
		return &hParty{name: "Map", l: a.Map(func(i int, x any) any { return x })}
	case 6:
		return &hParty{name: "MapValues", l: a.MapValues(func(x any) any { return x })}
	case 7:
		return &hParty{name: "MapInts", l: a.MapInts(func(x int) any { return x })}
	case 8:
		return &hParty{name: "Slice", sl: a.Slice()}
	case 9:
		s := a.IntSlice()
		out := make([]any, len(s), cap(s)) // typed slice viewed as []any for the generic mutator; aliasing is checked on the typed slice below
		for i := range s {
			out[i] = s[i]
		}
		if len(s) > 0 {
			s[0] = s[0] + 1
			s = append(s[:0], 9)
		}
		return &hParty{name: "IntSlice", sl: out}
	case 10:
		return &hParty{name: "Clone", l: a.Clone()}
	case 11:
		return &hParty{name: "Concat-self", l: a.Concat(a)}
	default:
		s := a.ListSlice()
		out := make([]any, len(s))
		for i := range s {
			out[i] = s[i]
		}
		if len(s) > 0 {
			s[0] = nil
		}
		return &hParty{name: "ListSlice", sl: out}
	}
}

func H_C09_list_derive() {
	verifBound("LISTN", 2)
	verifBound("SPARE", 1)
	h := hMkHeap(1, 2, 2)
	a, b := h.lists[0], h.lists[1]
	pa, pb := &hParty{name: "receiver", l: a}, &hParty{name: "argument", l: b}
	pa.take()
	pb.take()
	d1 := nondetIntRange(0, hNumListDerive-1)
	r1 := hDeriveList(a, b, d1)
	verifAssert(verifAnd(pa.unchanged(), pb.unchanged()), "a deriving operation leaves receiver and argument unchanged")
	d2 := nondetIntRange(0, hNumListDerive-1)
	r2 := hDeriveList(a, b, d2)
	verifAssert(verifAnd(pa.unchanged(), pb.unchanged()), "a second deriving operation leaves receiver and argument unchanged")
	r1.take()
	verifAssert(true, "r1 snapshot")
	r2.take()
	parties := []*hParty{pa, pb, r1, r2}
	for _, p := range parties {
		p.take()
	}
	who := nondetIntRange(0, 3)
	parties[who].mutate()
	for i, p := range parties {
		if i != who {
			verifAssert(p.unchanged(), "mutating one of receiver/argument/result/second result changes none of the others")
		}
	}
	verifReach("end")
}

// observers that return plain values are pure
func H_C09_list_observers_pure() {
	h := hMkHeap(0, 2, 3)
	a, b := h.lists[0], h.lists[1]
	pa, pb := &hParty{l: a}, &hParty{l: b}
	pa.take()
	pb.take()
	switch nondetIntRange(0, 9) {
	case 0:
		a.Equals(b)
	case 1:
		a.Contains(nondetInt())
	case 2:
		a.IndexOf(b)
	case 3:
		a.Reduce(0, func(acc, x any) any { return acc })
	case 4:
		a.ReduceInts(0, func(acc, x int) int { return acc + x })
	case 5:
		a.ForEach(func(i int, x any) {})
	case 6:
		a.Count()
		a.Empty()
		a.AllInts()
		a.AllNumeric()
	case 7:
		a.IntSum()
		a.IntMin()
		// Sum/Max are defined on all-numeric lists only; outside that domain they may panic
		verifCatch(func() {
			a.Sum()
			a.Max()
		})
	case 8:
		a.TypeOfTF("#0")
		verifCatch(func() { a.GetTF("#0") })
	default:
		a.StringSlice()
		a.ObjectSlice()
		a.FloatSlice()
		a.BoolSlice()
	}
	verifAssert(verifAnd(pa.unchanged(), pb.unchanged()), "a non-mutating list operation leaves receiver and argument unchanged")
	verifReach("end")
}

// hOwnCopy returns a string with storage of its own (natively a real copy, so that a result aliasing
// a reused buffer cannot drag the copy along).
func hOwnCopy(s string) string {
	return string(append([]byte(nil), s...))
}

// String and FormatString return plain Go values: a text handed out earlier reads the same after later
// calls on the same or on another container, and after mutation of the receiver.
func H_C09_text_results_are_stable() {
	x := nondetInt()
	verifAssume(verifAnd(x >= 0, x < 10))
	n := nondetIntRange(0, 10)
	var a, b any
	if nondetIntRange(0, 1) == 0 {
		a, b = NewList(x, NewList(true)), NewObject("k", NewList(x, "s"))
	} else {
		a, b = NewObject("k", x), NewList("s", x)
	}
	s1, _ := hFormatAny(a, n)
	t1 := hStringAny(a)
	s1c, t1c := hOwnCopy(s1), hOwnCopy(t1)
	before := hSnapAny(a)
	// later calls: another container, then the same container with another indent
	s2, _ := hFormatAny(b, 10-n)
	t2 := hStringAny(b)
	s2c, t2c := hOwnCopy(s2), hOwnCopy(t2)
	hFormatAny(a, 10-n)
	hStringAny(a)
	verifAssert(hExact(before, hSnapAny(a)), "String and FormatString leave the receiver unchanged")
	if l, ok := a.(List); ok {
		l.Add("later")
	} else {
		a.(Object).Set("later", 1)
	}
	hFormatAny(a, n)
	hStringAny(a)
	verifAssert(s1 == s1c && t1 == t1c && s2 == s2c && t2 == t2c, "a text returned by String or FormatString is not changed by later calls or mutations")
	verifReach("end")
}

const hNumObjDerive = 9

func hDeriveObject(a, b Object, k1 string, d int) *hParty {
	switch d {
	case 0:
		return &hParty{name: "Merge", o: a.Merge(b)}
	case 1:
		return &hParty{name: "Pluck", o: a.Pluck(k1)}
	case 2:
		return &hParty{name: "Keys", l: a.Keys()}
	case 3:
		return &hParty{name: "Values", l: a.Values()}
	case 4:
		return &hParty{name: "Dict", dict: a.Dict()}
	case 5:
		return &hParty{name: "Map", o: a.Map(func(k string, v any) any { return v })}
	case 6:
		return &hParty{name: "MapValues", o: a.MapValues(func(v any) any { return v })}
	case 7:
		return &hParty{name: "Clone", o: a.Clone()}
	default:
		return &hParty{name: "MapInts", o: a.MapInts(func(v int) any { return v })}
	}
}

func H_C09_object_derive() {
	verifBound("OBJN", 2)
	inner := NewList(nondetInt())
	k1, k2 := hBytesStr(1), hBytesStr(1)
	verifAssume(k1 != k2)
	a := NewObject(k1, nondetInt())
	if nondetIntRange(0, 1) == 1 {
		a.Set(k2, inner)
	}
	b := NewObject()
	switch nondetIntRange(0, 2) {
	case 1:
		b.Set(k1, hBytesStr(1))
	case 2:
		b.Set(hBytesStr(1), inner)
	}
	pa, pb := &hParty{name: "receiver", o: a}, &hParty{name: "argument", o: b}
	pa.take()
	pb.take()
	r1 := hDeriveObject(a, b, k1, nondetIntRange(0, hNumObjDerive-1))
	verifAssert(verifAnd(pa.unchanged(), pb.unchanged()), "a deriving operation leaves receiver and argument unchanged")
	r2 := hDeriveObject(a, b, k1, nondetIntRange(0, hNumObjDerive-1))
	verifAssert(verifAnd(pa.unchanged(), pb.unchanged()), "a second deriving operation leaves receiver and argument unchanged")
	parties := []*hParty{pa, pb, r1, r2}
	for _, p := range parties {
		p.take()
	}
	who := nondetIntRange(0, 3)
	parties[who].mutate()
	for i, p := range parties {
		if i != who {
			verifAssert(p.unchanged(), "mutating one of receiver/argument/result/second result changes none of the others")
		}
	}
	verifReach("end")
}

func H_C09_object_observers_pure() {
	inner := NewList(nondetInt())
	k1 := hBytesStr(1)
	a := NewObject(k1, nondetInt(), "zz", inner)
	b := NewObject(k1, nondetInt())
	pa, pb := &hParty{o: a}, &hParty{o: b}
	pa.take()
	pb.take()
	switch nondetIntRange(0, 6) {
	case 0:
		a.Equals(b)
	case 1:
		a.Contains(inner)
		a.Contains(nondetInt())
	case 2:
		verifCatch(func() { a.KeyOf(nondetInt()) })
	case 3:
		a.KeyExists(hBytesStr(1))
		a.TypeOf(hBytesStr(1))
		a.Count()
		a.Empty()
	case 4:
		a.ForEach(func(k string, v any) {})
		a.ForEachInt(func(v int) {})
	case 5:
		a.TypeOfTF(".zz#0")
		verifCatch(func() { a.GetTF(".zz#0") })
	default:
		verifCatch(func() { a.Get(hBytesStr(1)) })
		verifCatch(func() { a.GetInt(k1) })
		// deriving operations that fail (a key the receiver lacks) fail without a trace in the receiver
		verifCatch(func() { a.Pluck(k1, hBytesStr(2)) })
		verifCatch(func() { a.Pluck("missing") })
	}
	verifAssert(verifAnd(pa.unchanged(), pb.unchanged()), "a non-mutating object operation leaves receiver and argument unchanged")
	verifReach("end")
}

// arguments passed as caller-owned slices (variadic calls with an existing slice) are arguments too: a deriving
// operation leaves them as they were
func H_C09_variadic_arguments_unchanged() {
	o := NewObject("b", 1, "a", 2, "c", NewList(3))
	keys := []string{"c", "a", "b"}
	if nondetIntRange(0, 1) == 0 {
		keys = []string{"b", "c", "a", "a"}
	}
	before := append([]string{}, keys...)
	r := o.Pluck(keys...)
	ok := len(keys) == len(before)
	for i := range before {
		ok = ok && keys[i] == before[i]
	}
	verifAssert(ok, "Pluck leaves its arguments unchanged (the caller's key slice keeps its order)")
	verifAssert(r.Count() == 3 && o.Count() == 3, "Pluck keeps exactly the requested keys and leaves the receiver unchanged")
	verifReach("end")
}

// deriving operations on receivers that hold nested containers two levels deep: receiver and argument keep
// the identical nested containers with the identical content (nothing is written back into the source), and a
// later Clear of the receiver does not reach into containers the results still hold
func H_C09_nested_content_untouched() {
	x := nondetInt()
	deep := NewList(x)
	mid := NewList(deep, 1)
	midO := NewObject("d", deep)
	l := NewList(mid, midO, 2)
	o := NewObject("m", mid, "o", midO)
	var results []any
	switch nondetIntRange(0, 6) {
	case 0:
		results = append(results, l.SubList(0, 0))
	case 1:
		results = append(results, l.Concat(NewList(mid)))
	case 2:
		results = append(results, l.Filter(func(v any) bool { return true }))
	case 3:
		results = append(results, o.Merge(NewObject("z", 1)), o.Merge(o))
		// receiver and argument both hold an object under the same key: the result takes the argument's, and
		// neither nested object is written to
		argIn := NewObject("e", x)
		arg := NewObject("o", argIn, "m", 7)
		r := o.Merge(arg)
		results = append(results, r)
		verifAssert(r.Get("o") == any(argIn) && argIn.Count() == 1 && arg.Count() == 2 && arg.Get("o") == any(argIn), "Merge prefers the argument's value on a shared key and leaves the argument (and what it holds) unchanged")
	case 4:
		results = append(results, o.Pluck("m"), o.Values())
	case 5:
		results = append(results, l.Clone(), o.Clone())
	default:
		results = append(results, l.Map(func(i int, v any) any { return v }))
	}
	verifAssert(l.Get(0) == any(mid) && l.Get(1) == any(midO) && o.Get("m") == any(mid) && o.Get("o") == any(midO), "a deriving operation leaves the receiver's slots holding the identical containers")
	verifAssert(mid.Get(0) == any(deep) && midO.Get("d") == any(deep) && mid.Count() == 2 && midO.Count() == 1 && deep.Count() == 1 && deep.GetInt(0) == x, "a deriving operation leaves nested containers of the receiver unchanged (identity and content, two levels down)")
	var snaps []mval
	for _, r := range results {
		snaps = append(snaps, hSnapAny(r))
	}
	if nondetIntRange(0, 1) == 0 {
		l.Clear()
	} else {
		o.Clear()
	}
	for i, r := range results {
		verifAssert(hExact(snaps[i], hSnapAny(r)), "Clear on the receiver does not change a result derived from it (nor the containers the result still holds)")
	}
	verifReach("end")
}

// Sort (and Reverse) as the later mutation: results that share scalar wrappers with the receiver (SubList,
// Concat, Filter, Map, Clone, typed slices) are not touched when the receiver — or another result — is
// sorted and then grown again, for every sortable kind.
func H_C09_sort_after_derive() {
	verifBound("LISTN", 3)
	var a List
	kind := nondetIntRange(0, 2)
	switch kind {
	case 0:
		a = NewList(nondetInt(), nondetInt(), nondetInt())
	case 1:
		a = NewList(hFiniteFloat(), hFiniteFloat(), hFiniteFloat())
	default:
		a = NewList(hBytesStr(1), hBytesStr(1), hBytesStr(1))
	}
	derive := func() List {
		switch nondetIntRange(0, 5) {
		case 0:
			return a.SubList(0, 3)
		case 1:
			return a.Concat(NewList())
		case 2:
			return NewList().Concat(a)
		case 3:
			return a.Filter(func(v any) bool { return true })
		case 4:
			return a.Map(func(i int, v any) any { return v })
		default:
			return a.Clone()
		}
	}
	r1, r2 := derive(), derive()
	parties := []List{a, r1, r2}
	snaps := []mval{hSnapAny(a), hSnapAny(r1), hSnapAny(r2)}
	who := nondetIntRange(0, 2)
	if nondetIntRange(0, 3) == 0 {
		parties[who].Reverse()
	} else {
		parties[who].Sort()
	}
	// grow again with fresh values of the same kind
	switch kind {
	case 0:
		parties[who].Add(nondetInt(), nondetInt())
	case 1:
		parties[who].Add(hFiniteFloat())
	default:
		parties[who].Add(hBytesStr(1))
	}
	for i, p := range parties {
		if i != who {
			verifAssert(hExact(snaps[i], hSnapAny(p)), "mutating one of receiver/argument/result/second result changes none of the others")
		}
	}
	verifReach("end")
}


// Equals is an observer: a comparison (whatever its outcome) leaves nothing behind that a later comparison
// of the same operands — or of a result derived from them — could see
func H_C09_equals_leaves_no_trace() {
	x, y := nondetInt(), nondetInt()
	verifAssume(x != y)
	in := NewList(x)
	a := NewList(in, x, "s")
	sub := a.SubList(0, 2)
	diff := NewList(NewList(y), x, "s")
	same := NewList(NewList(x), x, "s")
	verifAssert(!a.Equals(diff), "Equals is exactly typed structural equality")
	verifAssert(!a.Equals(diff) && a.Equals(same) && !a.Equals(NewList(NewList(y), y, "t")), "a non-mutating list operation leaves receiver and argument unchanged")
	verifAssert(sub.Equals(NewList(NewList(x), x)) && !sub.Equals(NewList(NewList(y), x)) && !in.Equals(NewList(y)) && in.Equals(NewList(x)), "mutating one of receiver/argument/result/second result changes none of the others")
	o, od, os := NewObject("k", in, "n", x), NewObject("k", NewList(y), "n", x), NewObject("k", NewList(x), "n", x)
	verifAssert(!o.Equals(od) && o.Equals(os) && !o.Equals(od), "a non-mutating object operation leaves receiver and argument unchanged")
	verifReach("end")
}
