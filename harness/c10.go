package anytype

// C10 — tree-form reads equal step-by-step navigation; unresolved paths are Undefined.

type hSeg struct {
	sigil byte   // '.' or '#'
	key   string // for '.'
	idx   int    // for '#', when numeric
	text  string // body text as written in the path
	num   bool   // '#' body is a canonical non-negative decimal
}

func hNotSigil(k string) {
	for i := 0; i < len(k); i++ {
		verifAssume(verifAnd(k[i] != '.', k[i] != '#'))
	}
}

// hGenSeg: an arbitrary segment: '.'+symbolic key (or empty), '#'+index text (canonical 0..3, or
// empty, or non-numeric, or negative)
func hGenSeg() hSeg {
	switch nondetIntRange(0, 8) {
	case 0:
		k := hBytesStr(1)
		hNotSigil(k)
		return hSeg{sigil: '.', key: k, text: k}
	case 1:
		return hSeg{sigil: '.', key: "", text: ""}
	case 2:
		return hSeg{sigil: '#', idx: 0, text: "0", num: true}
	case 3:
		return hSeg{sigil: '#', idx: 1, text: "1", num: true}
	case 4:
		return hSeg{sigil: '#', idx: 2, text: "2", num: true}
	case 5:
		return hSeg{sigil: '#', idx: 3, text: "3", num: true}
	case 6:
		return hSeg{sigil: '#', text: ""}
	case 7:
		c := nondetByte() // a non-digit, non-sigil, non-sign character
		verifAssume(verifOr(c < '0', c > '9'))
		verifAssume(verifAnd(verifAnd(c != '.', c != '#'), verifAnd(c != '-', verifAnd(c != '+', c != '_'))))
		t := string([]byte{c})
		return hSeg{sigil: '#', text: t}
	default:
		return hSeg{sigil: '#', text: "-1"}
	}
}

// hNavigate: the reference — apply the segments one Get at a time.
func hNavigate(root any, segs []hSeg) (val any, kind Type, ok bool) {
	cur := root
	kind = TypeUndefined
	for _, s := range segs {
		if s.sigil == '.' {
			o, isO := cur.(Object)
			if !isO || len(s.key) == 0 || !o.KeyExists(s.key) {
				return nil, TypeUndefined, false
			}
			kind = o.TypeOf(s.key)
			cur = o.Get(s.key)
		} else {
			l, isL := cur.(List)
			if !isL || !s.num || s.idx >= l.Count() {
				return nil, TypeUndefined, false
			}
			kind = l.TypeOf(s.idx)
			cur = l.Get(s.idx)
		}
	}
	return cur, kind, len(segs) > 0
}

func hPathString(segs []hSeg) string {
	p := ""
	for _, s := range segs {
		p += string([]byte{s.sigil}) + s.text
	}
	return p
}

// the fixed mixed tree: all four nesting combinations, symbolic keys and leaves
func hTFTree(rootIsList bool) (any, string, string) {
	k1, k2 := hBytesStr(1), hBytesStr(1)
	hNotSigil(k1)
	hNotSigil(k2)
	verifAssume(k1 != k2)
	x, y := nondetInt(), hBytesStr(1)
	o2 := NewObject(k2, y, k1, NewList(nondetBool()))
	l1 := NewList(x, o2, NewList(nil, NewList(hFiniteFloat())))
	o3 := NewObject(k1, y, k2, NewObject())
	if rootIsList {
		return NewList(l1, o3, x), k1, k2
	}
	return NewObject(k1, l1, k2, o3), k1, k2
}

func hGetTFAny(root any, p string) (v any, panicked bool) {
	panicked = verifCatch(func() {
		switch r := root.(type) {
		case List:
			v = r.GetTF(p)
		case Object:
			v = r.GetTF(p)
		}
	})
	return
}

func hTypeOfTFAny(root any, p string) (t Type, panicked bool) {
	panicked = verifCatch(func() {
		switch r := root.(type) {
		case List:
			t = r.TypeOfTF(p)
		case Object:
			t = r.TypeOfTF(p)
		}
	})
	return
}

func H_C10_paths() {
	maxSeg := 3
	if verifTier() > 0 {
		maxSeg = 4
	}
	verifBound("PATHSEG", maxSeg)
	root, _, _ := hTFTree(nondetIntRange(0, 1) == 1)
	before := hSnapAny(root)
	n := nondetIntRange(1, maxSeg)
	segs := make([]hSeg, n)
	for i := range segs {
		segs[i] = hGenSeg()
	}
	p := hPathString(segs)
	want, wkind, ok := hNavigate(root, segs)
	ty, tp := hTypeOfTFAny(root, p)
	verifAssert(!tp, "TypeOfTF never panics")
	got, gp := hGetTFAny(root, p)
	if ok {
		verifAssert(ty == wkind, "TypeOfTF of a resolvable path is the kind of the value reached step by step")
		verifAssert(!gp, "GetTF of a resolvable path does not panic")
		if !gp {
			verifAssert(hSameShallow(hSnapValue(wkind, got, false), hSnapValue(wkind, want, false)), "GetTF returns what segment-by-segment Get returns (identical container / equal scalar)")
		}
	} else {
		verifAssert(ty == TypeUndefined, "TypeOfTF of a path that cannot be followed is Undefined")
		verifAssert(gp, "GetTF of a path that cannot be followed panics")
	}
	verifAssert(hExact(before, hSnapAny(root)), "tree-form reads do not modify the tree")
	verifObserve("ty", ty)
	verifReach("end")
}

// index text with symbolic digits: "#d" / "#dd" canonical decimals against a 12-element list
func H_C10_index_digits() {
	l := NewList()
	for i := 0; i < 12; i++ {
		l.Add(100 + i)
	}
	nd := nondetIntRange(1, 2)
	ds := make([]byte, nd)
	idx := 0
	for i := 0; i < nd; i++ {
		d := nondetByte()
		verifAssume(verifAnd(d >= '0', d <= '9'))
		if i == 0 && nd > 1 {
			verifAssume(d != '0') // canonical spelling
		}
		ds[i] = d
		idx = idx*10 + int(d-'0')
	}
	p := "#" + string(ds)
	ty := l.TypeOfTF(p)
	var got any
	gp := verifCatch(func() { got = l.GetTF(p) })
	if idx < 12 {
		verifAssert(ty == TypeInt, "TypeOfTF resolves a decimal index below the count")
		verifAssert(!gp, "GetTF resolves a decimal index below the count")
		if !gp {
			gi, isInt := got.(int)
			verifAssert(isInt && gi == 100+idx, "GetTF returns the element at the decimal index")
		}
	} else {
		verifAssert(ty == TypeUndefined, "an index >= count is Undefined")
		verifAssert(gp, "GetTF panics for an index >= count")
	}
	verifReach("end")
}

// arbitrary short strings over the path alphabet: TypeOfTF never panics
func H_C10_any_string_total() {
	n := 4
	if verifTier() > 0 {
		n = 5
	}
	verifBound("ANYPATH_BYTES", n)
	root, _, _ := hTFTree(nondetIntRange(0, 1) == 1)
	before := hSnapAny(root)
	b := make([]byte, nondetIntRange(0, n))
	for i := range b {
		c := nondetByte()
		// alphabet: sigils, digits, sign, underscore, x, and one free letter class
		ok := verifOr(verifOr(c == '.', c == '#'), verifOr(verifAnd(c >= '0', c <= '9'), verifOr(c == '-', verifOr(c == '_', verifOr(c == 'x', c == 'a')))))
		verifAssume(ok)
		b[i] = c
	}
	_, tp := hTypeOfTFAny(root, string(b))
	verifAssert(!tp, "TypeOfTF never panics on any string")
	verifAssert(hExact(before, hSnapAny(root)), "tree-form reads do not modify the tree")
	verifReach("end")
}
