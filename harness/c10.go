package anytype

// C10 — tree-form reads equal step-by-step navigation; unresolved paths are Undefined.

type hSeg struct {
	sigil byte   // '.' or '#'
	key   string // for '.'
	idx   int    // for '#', when numeric
	text  string // body text as written in the path
	num   bool   // '#' body is a canonical non-negative decimal
}

func hNotSigil(k string) {
	for i := 0; i < len(k); i++ {
		verifAssume(verifAnd(k[i] != '.', k[i] != '#'))
	}
}

// hGenSeg: an arbitrary segment: '.'+symbolic key (or empty), '#'+index text (canonical 0..3, or
// empty, or non-numeric, or negative)
func hGenSeg() hSeg {
	switch nondetIntRange(0, 9) {
	case 9:
		return hSeg{sigil: '#', idx: 5, text: "5", num: true} // beyond count+1 of every list of the tree
	case 0:
		k := hBytesStr(1)
		hNotSigil(k)
		return hSeg{sigil: '.', key: k, text: k}
	case 1:
		return hSeg{sigil: '.', key: "", text: ""}
	case 2:
		return hSeg{sigil: '#', idx: 0, text: "0", num: true}
	case 3:
		return hSeg{sigil: '#', idx: 1, text: "1", num: true}
	case 4:
		return hSeg{sigil: '#', idx: 2, text: "2", num: true}
	case 5:
		return hSeg{sigil: '#', idx: 3, text: "3", num: true}
	case 6:
		return hSeg{sigil: '#', text: ""}
	case 7:
		c := nondetByte() // a non-digit, non-sigil, non-sign character
		verifAssume(verifOr(c < '0', c > '9'))
		verifAssume(verifAnd(verifAnd(c != '.', c != '#'), verifAnd(c != '-', verifAnd(c != '+', c != '_'))))
		t := string([]byte{c})
		return hSeg{sigil: '#', text: t}
	default:
		return hSeg{sigil: '#', text: "-1"}
	}
}

// hNavigate: the reference — apply the segments one Get at a time.
func hNavigate(root any, segs []hSeg) (val any, kind Type, ok bool) {
	cur := root
	kind = TypeUndefined
	for _, s := range segs {
		if s.sigil == '.' {
			o, isO := cur.(Object)
			if !isO || len(s.key) == 0 || !o.KeyExists(s.key) {
				return nil, TypeUndefined, false
			}
			kind = o.TypeOf(s.key)
			cur = o.Get(s.key)
		} else {
			l, isL := cur.(List)
			if !isL || !s.num || s.idx >= l.Count() {
				return nil, TypeUndefined, false
			}
			kind = l.TypeOf(s.idx)
			cur = l.Get(s.idx)
		}
	}
	return cur, kind, len(segs) > 0
}

func hPathString(segs []hSeg) string {
	p := ""
	for _, s := range segs {
		p += string([]byte{s.sigil}) + s.text
	}
	return p
}

// the fixed mixed tree: all four nesting combinations, symbolic keys and leaves
func hTFTree(rootIsList bool) (any, string, string) {
	k1, k2 := hBytesStr(1), hBytesStr(1)
	hNotSigil(k1)
	hNotSigil(k2)
	verifAssume(k1 != k2)
	x, y := nondetInt(), hBytesStr(1)
	o2 := NewObject(k2, y, k1, NewList(nondetBool()))
	l1 := NewList(x, o2, NewList(nil, NewList(hFiniteFloat())))
	o3 := NewObject(k1, y, k2, NewObject())
	if rootIsList {
		return NewList(l1, o3, x), k1, k2
	}
	return NewObject(k1, l1, k2, o3), k1, k2
}

func hGetTFAny(root any, p string) (v any, panicked bool) {
	panicked = verifCatch(func() {
		switch r := root.(type) {
		case List:
			v = r.GetTF(p)
		case Object:
			v = r.GetTF(p)
		}
	})
	return
}

func hTypeOfTFAny(root any, p string) (t Type, panicked bool) {
	panicked = verifCatch(func() {
		switch r := root.(type) {
		case List:
			t = r.TypeOfTF(p)
		case Object:
			t = r.TypeOfTF(p)
		}
	})
	return
}

func H_C10_paths() {
	maxSeg := 3
	if verifTier() > 0 {
		maxSeg = 4
	}
	verifBound("PATHSEG", maxSeg)
	root, _, _ := hTFTree(nondetIntRange(0, 1) == 1)
	before := hSnapAny(root)
	n := nondetIntRange(1, maxSeg)
	segs := make([]hSeg, n)
	for i := range segs {
		segs[i] = hGenSeg()
	}
	p := hPathString(segs)
	want, wkind, ok := hNavigate(root, segs)
	ty, tp := hTypeOfTFAny(root, p)
	verifAssert(!tp, "TypeOfTF never panics")
	got, gp := hGetTFAny(root, p)
	if ok {
		verifAssert(ty == wkind, "TypeOfTF of a resolvable path is the kind of the value reached step by step")
		verifAssert(!gp, "GetTF of a resolvable path does not panic")
		if !gp {
			verifAssert(hSameShallow(hSnapValue(wkind, got, false), hSnapValue(wkind, want, false)), "GetTF returns what segment-by-segment Get returns (identical container / equal scalar)")
		}
	} else {
		verifAssert(ty == TypeUndefined, "TypeOfTF of a path that cannot be followed is Undefined")
		verifAssert(gp, "GetTF of a path that cannot be followed panics")
	}
	verifAssert(hExact(before, hSnapAny(root)), "tree-form reads do not modify the tree")
	verifObserve("ty", ty)
	verifReach("end")
}

// index text with symbolic digits: "#d" / "#dd" canonical decimals against a 12-element list
func H_C10_index_digits() {
	l := NewList()
	for i := 0; i < 12; i++ {
		l.Add(100 + i)
	}
	nd := nondetIntRange(1, 2)
	ds := make([]byte, nd)
	idx := 0
	for i := 0; i < nd; i++ {
		d := nondetByte()
		verifAssume(verifAnd(d >= '0', d <= '9'))
		if i == 0 && nd > 1 {
			verifAssume(d != '0') // canonical spelling
		}
		ds[i] = d
		idx = idx*10 + int(d-'0')
	}
	p := "#" + string(ds)
	ty := l.TypeOfTF(p)
	var got any
	gp := verifCatch(func() { got = l.GetTF(p) })
	if idx < 12 {
		verifAssert(ty == TypeInt, "TypeOfTF resolves a decimal index below the count")
		verifAssert(!gp, "GetTF resolves a decimal index below the count")
		if !gp {
			gi, isInt := got.(int)
			verifAssert(isInt && gi == 100+idx, "GetTF returns the element at the decimal index")
		}
	} else {
		verifAssert(ty == TypeUndefined, "an index >= count is Undefined")
		verifAssert(gp, "GetTF panics for an index >= count")
	}
	verifReach("end")
}

// arbitrary short strings over the path alphabet: TypeOfTF never panics
func H_C10_any_string_total() {
	n := 4
	if verifTier() > 0 {
		n = 5
	}
	verifBound("ANYPATH_BYTES", n)
	root, _, _ := hTFTree(nondetIntRange(0, 1) == 1)
	before := hSnapAny(root)
	b := make([]byte, nondetIntRange(0, n))
	for i := range b {
		c := nondetByte()
		// alphabet: sigils, digits, sign, underscore, x, and one free letter class
		ok := verifOr(verifOr(c == '.', c == '#'), verifOr(verifAnd(c >= '0', c <= '9'), verifOr(c == '-', verifOr(c == '_', verifOr(c == 'x', c == 'a')))))
		verifAssume(ok)
		b[i] = c
	}
	_, tp := hTypeOfTFAny(root, string(b))
	verifAssert(!tp, "TypeOfTF never panics on any string")
	verifAssert(hExact(before, hSnapAny(root)), "tree-form reads do not modify the tree")
	verifReach("end")
}

// keys that stress the splitting of a path: a key of one arbitrary multi-byte code point in a non-final
// segment, and a tree that really has a field under the empty-string key (a path with an empty segment
// still cannot be followed: the property's keys are non-empty)
func H_C10_special_keys() {
	r := nondetRune()
	verifAssume(verifAnd(r >= 0x80, r <= 0x10FFFF))
	verifAssume(verifOr(r < 0xD800, r > 0xDFFF))
	mk := string(r)
	x, y := nondetInt(), nondetInt()
	inner := NewObject("b", x, "", y)
	lst := NewList(NewObject("", x, "k", y), y)
	root := NewObject(mk, inner, "l", lst, "", NewObject("b", y), "m"+mk+"n", NewList(x, y))
	before := hSnapAny(root)
	var p string
	var want any
	resolvable := true
	switch nondetIntRange(0, 9) {
	case 0:
		p, want = "."+mk+".b", x
	case 1:
		p, want = ".m"+mk+"n#1", y
	case 2:
		p, want = ".l#0.k", y
	case 3:
		p, want = "."+mk, inner
	case 4:
		p, resolvable = ".", false
	case 5:
		p, resolvable = "."+mk+".", false
	case 6:
		p, resolvable = ".l#0.", false
	case 7:
		p, resolvable = "..b", false
	case 8:
		p, resolvable = ".l#0..k", false
	default:
		p, resolvable = "."+mk+"#0", false
	}
	ty, tp := hTypeOfTFAny(root, p)
	verifAssert(!tp, "TypeOfTF never panics")
	got, gp := hGetTFAny(root, p)
	if resolvable {
		verifAssert(!gp, "GetTF of a resolvable path does not panic")
		if !gp {
			if o, isO := want.(Object); isO {
				verifAssert(ty == TypeObject && got == any(o), "GetTF returns what segment-by-segment Get returns (identical container / equal scalar)")
			} else {
				gi, isInt := got.(int)
				verifAssert(ty == TypeInt && isInt && gi == want.(int), "GetTF returns what segment-by-segment Get returns (identical container / equal scalar)")
			}
		}
	} else {
		verifAssert(ty == TypeUndefined, "TypeOfTF of a path that cannot be followed is Undefined")
		verifAssert(gp, "GetTF of a path that cannot be followed panics")
	}
	verifAssert(hExact(before, hSnapAny(root)), "tree-form reads do not modify the tree")
	verifReach("end")
}

// very long decimal indices (around 2^63 and 2^64, where a hand-written digit loop wraps): far beyond
// the count, hence Undefined / panic — also in a non-final segment
func H_C10_huge_index() {
	l := NewList(NewList(1, 2), 5, 6)
	d := nondetByte()
	verifAssume(verifAnd(d >= '0', d <= '9'))
	var body string
	switch nondetIntRange(0, 3) {
	case 0:
		body = "1844674407370955161" + string([]byte{d}) // 2^64 = 18446744073709551616
	case 1:
		body = "922337203685477580" + string([]byte{d}) // 2^63 = 9223372036854775808
	case 2:
		body = "3689348814741910323" + string([]byte{d}) // 2*2^64 + small
	default:
		body = "99999999999999999999" + string([]byte{d})
	}
	p := "#" + body
	if nondetIntRange(0, 1) == 1 {
		p = "#0#" + body
	}
	if nondetIntRange(0, 1) == 1 {
		p = p + "#0"
	}
	ty, tp := hTypeOfTFAny(l, p)
	verifAssert(!tp, "TypeOfTF never panics")
	verifAssert(ty == TypeUndefined, "an index >= count is Undefined")
	_, gp := hGetTFAny(l, p)
	verifAssert(gp, "GetTF panics for an index >= count")
	verifReach("end")
}

// index segments that start with digits and go on with other characters are non-numeric segments
func H_C10_index_with_trailing_characters() {
	l := NewList(NewList(1, 2), NewObject("k", 3), 4, 5)
	c := nondetByte()
	verifAssume(verifAnd(c >= 0x21, c < 0x7f))
	verifAssume(verifOr(c < '0', c > '9'))
	verifAssume(verifAnd(verifAnd(c != '.', c != '#'), c != '_'))
	var p string
	switch nondetIntRange(0, 3) {
	case 0:
		p = "#1" + string([]byte{c})
	case 1:
		p = "#0#1" + string([]byte{c})
	case 2:
		p = "#0" + string([]byte{c}) + "#1"
	default:
		p = "#1" + string([]byte{c}) + ".k"
	}
	ty, tp := hTypeOfTFAny(l, p)
	verifAssert(!tp && ty == TypeUndefined, "TypeOfTF of a path with a non-numeric index segment is Undefined")
	_, gp := hGetTFAny(l, p)
	verifAssert(gp, "GetTF of a path with a non-numeric index segment panics")
	verifReach("end")
}

// long lists: three-digit decimal indices against a list of 600 elements (also in a non-final segment)
func H_C10_long_list_indices() {
	x := nondetInt()
	inner := NewObject("k", x)
	l := NewListOf(inner, 600)
	hi := []string{"10", "25", "51", "59", "60", "99"}[nondetIntRange(0, 5)] // 10x, 25x, 51x (around 2^9), 59x/60x (around the count), 99x
	d1, d2 := hi[0], hi[1]
	d3 := nondetByte()
	verifAssume(verifAnd(d3 >= '0', d3 <= '9'))
	idx := int(d1-'0')*100 + int(d2-'0')*10 + int(d3-'0')
	body := string([]byte{d1, d2, d3})
	var root any = l
	p := "#" + body
	if nondetIntRange(0, 1) == 1 {
		root = NewObject("rows", l)
		p = ".rows#" + body
	}
	final := nondetIntRange(0, 1) == 0
	if !final {
		p += ".k"
	}
	ty, tp := hTypeOfTFAny(root, p)
	got, gp := hGetTFAny(root, p)
	verifAssert(!tp, "TypeOfTF never panics")
	if idx < 600 {
		if final {
			verifAssert(ty == TypeObject && !gp && got == any(inner), "GetTF returns what segment-by-segment Get returns (identical container / equal scalar)")
		} else {
			gi, isInt := got.(int)
			verifAssert(ty == TypeInt && !gp && isInt && gi == x, "GetTF returns what segment-by-segment Get returns (identical container / equal scalar)")
		}
	} else {
		verifAssert(ty == TypeUndefined && gp, "an index >= count is Undefined / GetTF panics")
	}
	verifReach("end")
}

// A derived object (README "Derived Structures") that overrides the lookup methods consistently: keys it
// does not hold itself are looked up in a parent object. Step-by-step navigation goes through the overriding
// methods, so tree-form reads must, too — at the root and where such an object is an intermediate.
type hFallbackObj struct {
	Object
	parent Object
}

func hNewFallback(parent Object, vals ...any) *hFallbackObj {
	ego := &hFallbackObj{Object: NewObject(vals...), parent: parent}
	ego.Init(ego)
	return ego
}

func (ego *hFallbackObj) KeyExists(key string) bool {
	return ego.Object.KeyExists(key) || ego.parent.KeyExists(key)
}

func (ego *hFallbackObj) TypeOf(key string) Type {
	if ego.Object.KeyExists(key) {
		return ego.Object.TypeOf(key)
	}
	return ego.parent.TypeOf(key)
}

func (ego *hFallbackObj) Get(key string) any {
	if ego.Object.KeyExists(key) {
		return ego.Object.Get(key)
	}
	return ego.parent.Get(key)
}

func (ego *hFallbackObj) GetObject(key string) Object { return ego.Get(key).(Object) }
func (ego *hFallbackObj) GetList(key string) List     { return ego.Get(key).(List) }

func H_C10_overriding_derived() {
	verifBound("PATHSEG", 3)
	k1, k2 := hBytesStr(1), hBytesStr(1)
	hNotSigil(k1)
	hNotSigil(k2)
	verifAssume(k1 != k2)
	x := nondetInt()
	parent := NewObject(k1, NewObject("p", x, "q", NewList(x, "s")), k2, NewList(NewObject("p", true), 2.5), "n", "base")
	fb := hNewFallback(parent, "own", NewObject(k1, x), "n", nil)
	var root any
	switch nondetIntRange(0, 2) {
	case 0:
		root = fb
	case 1:
		root = NewObject("d", fb, k1, 1)
	default:
		root = NewList(fb, x)
	}
	n := nondetIntRange(1, 3)
	segs := make([]hSeg, n)
	for i := range segs {
		switch nondetIntRange(0, 8) {
		case 0:
			segs[i] = hSeg{sigil: '.', key: k1, text: k1}
		case 1:
			segs[i] = hSeg{sigil: '.', key: k2, text: k2}
		case 2:
			segs[i] = hSeg{sigil: '.', key: "n", text: "n"}
		case 3:
			segs[i] = hSeg{sigil: '.', key: "own", text: "own"}
		case 4:
			segs[i] = hSeg{sigil: '.', key: "d", text: "d"}
		case 5:
			segs[i] = hSeg{sigil: '.', key: "p", text: "p"}
		case 6:
			segs[i] = hSeg{sigil: '.', key: "q", text: "q"}
		case 7:
			segs[i] = hSeg{sigil: '#', idx: 0, text: "0", num: true}
		default:
			segs[i] = hSeg{sigil: '#', idx: 1, text: "1", num: true}
		}
	}
	p := hPathString(segs)
	want, wkind, ok := hNavigate(root, segs)
	ty, tp := hTypeOfTFAny(root, p)
	verifAssert(!tp, "TypeOfTF never panics")
	got, gp := hGetTFAny(root, p)
	if ok {
		verifAssert(ty == wkind, "TypeOfTF of a resolvable path is the kind of the value reached step by step")
		verifAssert(!gp, "GetTF of a resolvable path does not panic")
		if !gp {
			verifAssert(hSameShallow(hSnapValue(wkind, got, false), hSnapValue(wkind, want, false)), "GetTF returns what segment-by-segment Get returns (identical container / equal scalar)")
		}
	} else {
		verifAssert(ty == TypeUndefined, "TypeOfTF of a path that cannot be followed is Undefined")
		verifAssert(gp, "GetTF of a path that cannot be followed panics")
	}
	verifReach("end")
}
