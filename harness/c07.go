package anytype

// C07 — Equals is exactly typed structural equality.

func hEqualsAny(a, b any) (res bool, panicked bool) {
	panicked = verifCatch(func() {
		switch x := a.(type) {
		case List:
			res = x.Equals(b.(List))
		case Object:
			res = x.Equals(b.(Object))
		}
	})
	return
}

func H_C07_pairs() {
	g := &hGen{scalars: hAllScalars, width: 2, keyBytes: 1, strBytes: 1}
	verifBound("DEPTH", 1)
	verifBound("WIDTH", 2)
	var na, nb *hNode
	if nondetIntRange(0, 1) == 0 {
		na, nb = g.list(1), g.list(1)
	} else {
		na, nb = g.object(1), g.object(1)
	}
	a, b := na.build(), nb.build()
	sa, sb := hSnapAny(a), hSnapAny(b)
	want := hRefEq(sa, sb)
	got, p := hEqualsAny(a, b)
	verifAssert(!p, "Equals never panics")
	verifAssert(got == want, "Equals is exactly typed structural equality")
	got2, p2 := hEqualsAny(b, a)
	verifAssert(!p2, "Equals never panics")
	verifAssert(got2 == got, "Equals is symmetric")
	verifAssert(verifAnd(hExact(sa, hSnapAny(a)), hExact(sb, hSnapAny(b))), "Equals modifies neither operand")
	r1, _ := hEqualsAny(a, a)
	verifAssert(r1, "Equals is reflexive")
	verifObserve("eq", got)
	verifReach("end")
}

// pairs that differ in exactly one place at depth 2: b is rebuilt from a's recipe with one edit
func H_C07_one_place() {
	g := &hGen{scalars: []Type{TypeNil, TypeInt, TypeFloat, TypeString}, width: 2, keyBytes: 1, strBytes: 1}
	verifBound("DEPTH", 2)
	verifBound("WIDTH", 2)
	// a fixed two-level skeleton with symbolic leaves: [ x, {k1: y, k2: [z]} ] or { k0: x, k3: [y, {k1: z}] }
	x, y, z := g.value(0), g.value(0), g.value(0)
	k0, k1, k2, k3 := hBytesStr(1), hBytesStr(1), hBytesStr(1), hBytesStr(1)
	verifAssume(k1 != k2)
	verifAssume(k0 != k3)
	var na *hNode
	form := nondetIntRange(0, 1)
	mk := func(x, y, z *hNode, k0, k1, k2, k3 string, extra *hNode, dropZ bool) *hNode {
		if form == 0 {
			inner := &hNode{kind: TypeList, kids: []*hNode{z}}
			if dropZ {
				inner.kids = nil
			}
			if extra != nil {
				inner.kids = append(inner.kids, extra)
			}
			obj := &hNode{kind: TypeObject, keys: []string{k1, k2}, kids: []*hNode{y, inner}}
			return &hNode{kind: TypeList, kids: []*hNode{x, obj}}
		}
		innerO := &hNode{kind: TypeObject, keys: []string{k1}, kids: []*hNode{z}}
		if dropZ {
			innerO.keys, innerO.kids = nil, nil
		}
		if extra != nil {
			innerO.keys = append(innerO.keys, k2)
			innerO.kids = append(innerO.kids, extra)
		}
		lst := &hNode{kind: TypeList, kids: []*hNode{y, innerO}}
		return &hNode{kind: TypeObject, keys: []string{k0, k3}, kids: []*hNode{x, lst}}
	}
	na = mk(x, y, z, k0, k1, k2, k3, nil, false)
	var nb *hNode
	switch nondetIntRange(0, 5) {
	case 0: // deepest scalar replaced by an arbitrary scalar of any kind
		nb = mk(x, y, g.value(0), k0, k1, k2, k3, nil, false)
	case 1: // middle scalar replaced
		nb = mk(x, g.value(0), z, k0, k1, k2, k3, nil, false)
	case 2: // one key renamed (may be renamed to itself)
		nk := hBytesStr(1)
		verifAssume(nk != k2)
		nb = mk(x, y, z, k0, nk, k2, k3, nil, false)
	case 3: // element appended at depth 2
		nb = mk(x, y, z, k0, k1, k2, k3, g.value(0), false)
	case 4: // element removed at depth 2
		nb = mk(x, y, z, k0, k1, k2, k3, nil, true)
	default: // identical recipe
		nb = mk(x, y, z, k0, k1, k2, k3, nil, false)
	}
	a, b := na.build(), nb.build()
	want := hRefEq(hSnapAny(a), hSnapAny(b))
	got, p := hEqualsAny(a, b)
	verifAssert(!p, "Equals never panics")
	verifAssert(got == want, "Equals is exactly typed structural equality (one-place differences at depth 2)")
	got2, _ := hEqualsAny(b, a)
	verifAssert(got2 == got, "Equals is symmetric")
	verifReach("end")
}

func H_C07_transitive() {
	g := &hGen{scalars: []Type{TypeNil, TypeInt, TypeFloat, TypeString}, width: 1, keyBytes: 1, strBytes: 1}
	verifBound("TRIPLE_DEPTH", 1)
	verifBound("TRIPLE_WIDTH", 1)
	var na, nb, nc *hNode
	if nondetIntRange(0, 1) == 0 {
		na, nb, nc = g.list(1), g.list(1), g.list(1)
	} else {
		na, nb, nc = g.object(1), g.object(1), g.object(1)
	}
	a, b, c := na.build(), nb.build(), nc.build()
	ab, _ := hEqualsAny(a, b)
	bc, _ := hEqualsAny(b, c)
	ac, _ := hEqualsAny(a, c)
	verifAssert(verifImplies(verifAnd(ab, bc), ac), "Equals is transitive")
	switch x := a.(type) {
	case List:
		verifAssert(x.Equals(x.Clone()), "a container Equals its clone")
	case Object:
		verifAssert(x.Equals(x.Clone()), "a container Equals its clone")
	}
	verifReach("end")
}

// operands that share structure: one operand (or a part of it) is nested inside the other. Equals is still
// plain structural equality, the same in both argument orders.
func H_C07_operands_sharing_structure() {
	a := nondetInt()
	x := NewList(NewList(a))
	ox := NewObject("k", NewList(a))
	var l, r any
	switch nondetIntRange(0, 3) {
	case 0:
		l, r = x, NewList(x)
	case 1:
		l, r = x, NewList(x.GetList(0))
	case 2:
		l, r = ox, NewObject("k", ox)
	default:
		l, r = NewList(x, ox), NewList(x, ox)
	}
	bl, br := hSnapAny(l), hSnapAny(r)
	want := hRefEq(bl, br)
	lr, p1 := hEqualsAny(l, r)
	rl, p2 := hEqualsAny(r, l)
	verifAssert(!p1 && !p2, "Equals never panics")
	verifAssert(lr == want && rl == want, "Equals is exactly typed structural equality, in both argument orders, also when the operands share structure")
	verifAssert(hExact(bl, hSnapAny(l)) && hExact(br, hSnapAny(r)), "Equals never modifies either operand")
	verifReach("end")
}

// all four nestings (list in list, list in object, object in list, object in object), two levels down, with
// independent symbolic leaves on both sides: Equals is decided by the leaves wherever they sit
func H_C07_every_nesting_compares_leaves() {
	mk := func(shape int, a, b int, s string) any {
		switch shape {
		case 0:
			return NewList(s, NewList(a, b), b)
		case 1:
			return NewObject("k", NewList(a, b), "z", s)
		case 2:
			return NewList(s, NewObject("p", a, "q", b))
		case 3:
			return NewObject("k", NewObject("p", a, "q", b), "z", s)
		case 4:
			return NewObject("k", NewObject("in", NewObject("p", a)), "l", NewList(NewObject("q", b)))
		default:
			return NewList(NewList(NewList(a), NewObject("p", b)), s)
		}
	}
	shape := nondetIntRange(0, 5)
	a1, b1, a2, b2 := nondetInt(), nondetInt(), nondetInt(), nondetInt()
	s1, s2 := hBytesStr(1), hBytesStr(1)
	l, r := mk(shape, a1, b1, s1), mk(shape, a2, b2, s2)
	want := hRefEq(hSnapAny(l), hSnapAny(r))
	lr, p1 := hEqualsAny(l, r)
	rl, p2 := hEqualsAny(r, l)
	verifAssert(!p1 && !p2, "Equals never panics")
	verifAssert(lr == want && rl == want, "Equals is exactly typed structural equality at every nesting (nested containers compared recursively by value)")
	verifReach("end")
}

// The same element occupying several positions of one operand (NewListOf, the same container added twice,
// runs of nil) while the other operand is built independently: every position is compared.
func H_C07_repeated_elements() {
	x, y, z := nondetInt(), nondetInt(), nondetInt()
	c := NewList(x)
	var a List
	switch nondetIntRange(0, 3) {
	case 0:
		a = NewListOf(x, 3)
	case 1:
		a = NewList(c, c, c)
	case 2:
		a = NewList(nil, nil, nil)
	default:
		a = NewListOf(c, 2).Add(x)
	}
	var b List
	switch nondetIntRange(0, 3) {
	case 0:
		b = NewList(x, y, z)
	case 1:
		b = NewList(NewList(x), NewList(y), NewList(z))
	case 2:
		b = NewList(nil, nil, nil)
		if nondetIntRange(0, 1) == 1 {
			b.Replace(nondetIntRange(1, 2), y)
		}
	default:
		b = NewList(NewList(x), NewList(y), z)
	}
	sa, sb := hSnapAny(a), hSnapAny(b)
	want := hRefEq(sa, sb)
	ab, p1 := hEqualsAny(a, b)
	ba, p2 := hEqualsAny(b, a)
	verifAssert(!p1 && !p2, "Equals never panics")
	verifAssert(ab == want, "Equals is exactly typed structural equality")
	verifAssert(ba == want, "Equals is symmetric")
	verifReach("end")
}


// Equals is a function of its two operands only: after many earlier comparisons (equal and unequal, four
// levels deep) the answer for a fresh pair is what it would have been at the start.
func H_C07_after_many_calls() {
	verifBound("EARLIER_CALLS", 40)
	mk := func(leaf int) List {
		return NewList(NewObject("a", NewList(NewObject("b", leaf), 1)), "s")
	}
	p, q, r := mk(1), mk(2), mk(1)
	for i := 0; i < 40; i++ {
		ne, pa := hEqualsAny(p, q)
		eq, pb := hEqualsAny(p, r)
		if ne || !eq || pa || pb {
			verifAssert(false, "Equals is exactly typed structural equality")
		}
	}
	x, y := nondetInt(), nondetInt()
	a, b := mk(x), mk(y)
	got, pc := hEqualsAny(a, b)
	verifAssert(!pc, "Equals never panics")
	verifAssert(got == (x == y), "Equals is exactly typed structural equality")
	cl := a.Clone()
	same, pd := hEqualsAny(a, cl)
	verifAssert(!pd && same, "Equals is reflexive")
	verifReach("end")
}
