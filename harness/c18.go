package anytype

import "math"

// C18 — numeric aggregates equal the reference folds.

// hNumList builds a list of n numeric elements (each an int or a finite float by choice) and
// returns the elements as float64 (the reference view) plus which ones are ints.
func hNumList(n int, smallMag bool) (List, []float64) {
	l := NewList()
	ref := make([]float64, n)
	for i := 0; i < n; i++ {
		if nondetIntRange(0, 1) == 0 {
			v := nondetInt()
			if smallMag {
				verifAssume(verifAnd(v > -1024, v < 1024))
			}
			l.Add(v)
			ref[i] = float64(v)
		} else {
			var f float64
			if smallMag {
				// small dyadic values so that products stay decidable: k/4 with |k| < 1024
				k := nondetInt()
				verifAssume(verifAnd(k > -1024, k < 1024))
				f = float64(k) / 4
			} else {
				f = hFiniteFloat()
			}
			l.Add(f)
			ref[i] = f
		}
	}
	return l, ref
}

func hSameFloat(a, b float64) bool {
	return verifOr(a == b, verifFloatBits(a) == verifFloatBits(b))
}

func H_C18_float_sum() {
	maxN := 3
	if verifTier() > 0 {
		maxN = 5
	}
	verifBound("LISTN_SUM", maxN)
	n := nondetIntRange(0, maxN)
	l, ref := hNumList(n, false)
	before := hSnapList(l, false)
	sum := 0.0
	for i := 0; i < n; i++ {
		sum += ref[i]
	}
	verifAssert(hSameFloat(l.Sum(), sum), "Sum equals the left fold of + over float64(elements)")
	if n == 0 {
		verifAssert(l.Sum() == 0, "Sum of no elements is 0")
	} else {
		verifAssert(hSameFloat(l.Avg(), sum/float64(n)), "Avg equals Sum/Count")
	}
	verifAssert(hSameSlots(before, hSnapList(l, false)), "aggregates do not modify the list")
	verifObserve("sum", l.Sum())
	verifReach("end")
}

func H_C18_float_minmax() {
	maxN := 2
	if verifTier() > 0 {
		maxN = 3
	}
	verifBound("LISTN_MINMAX", maxN)
	n := nondetIntRange(0, maxN)
	l, ref := hNumList(n, false)
	before := hSnapList(l, false)
	if n == 0 {
		verifAssert(l.Min() == 0, "Min of no elements is 0")
		verifAssert(l.Max() == 0, "Max of no elements is 0")
	} else {
		mn, mx := ref[0], ref[0]
		for i := 1; i < n; i++ {
			mn = verifIteFloat(ref[i] < mn, ref[i], mn)
			mx = verifIteFloat(ref[i] > mx, ref[i], mx)
		}
		verifAssert(l.Min() == mn, "Min equals the minimum of the elements as float64")
		verifAssert(l.Max() == mx, "Max equals the maximum of the elements as float64")
	}
	verifAssert(hSameSlots(before, hSnapList(l, false)), "aggregates do not modify the list")
	verifReach("end")
}

func H_C18_float_prod() {
	maxN := 3
	verifBound("LISTN", maxN)
	verifBound("PROD_MAG_BITS", 10)
	n := nondetIntRange(0, maxN)
	l, ref := hNumList(n, true)
	prod := 1.0
	for i := 0; i < n; i++ {
		prod *= ref[i]
	}
	verifAssert(hSameFloat(l.Prod(), prod), "Prod equals the left fold of * over float64(elements)")
	verifReach("end")
}

// Int* family: folds over exactly the int elements of any list (other kinds interleaved).
func H_C18_int_folds() {
	maxN := 3
	if verifTier() > 0 {
		maxN = 4
	}
	verifBound("LISTN", maxN)
	n := nondetIntRange(0, maxN)
	l := NewList()
	var ints []int
	for i := 0; i < n; i++ {
		switch nondetIntRange(0, 4) {
		case 0, 1:
			v := nondetInt()
			l.Add(v)
			ints = append(ints, v)
		case 2:
			l.Add(hFiniteFloat())
		case 3:
			l.Add(hBytesStr(1))
		default:
			l.Add(nil)
		}
	}
	before := hSnapList(l, false)
	sum, prod := 0, 1
	for _, v := range ints {
		sum += v
		prod *= v
	}
	verifAssert(l.IntSum() == sum, "IntSum equals the wrap-around sum of the int elements")
	if len(ints) == 0 {
		verifAssert(l.IntProd() == 1, "IntProd with no int element is 1")
		verifAssert(l.IntMin() == 0, "IntMin with no int element is 0")
		verifAssert(l.IntMax() == 0, "IntMax with no int element is 0")
	} else {
		mn, mx := ints[0], ints[0]
		for _, v := range ints[1:] {
			mn = verifIteInt(v < mn, v, mn)
			mx = verifIteInt(v > mx, v, mx)
		}
		verifAssert(l.IntMin() == mn, "IntMin equals the minimum of the int elements")
		verifAssert(l.IntMax() == mx, "IntMax equals the maximum of the int elements")
	}
	verifAssert(hSameSlots(before, hSnapList(l, false)), "aggregates do not modify the list")
	verifReach("end")
}

func H_C18_int_prod() {
	n := nondetIntRange(0, 3)
	verifBound("PROD_MAG_BITS", 15)
	l := NewList()
	prod := 1
	for i := 0; i < n; i++ {
		if nondetIntRange(0, 2) == 0 {
			l.Add(hBytesStr(0))
			continue
		}
		v := nondetInt()
		verifAssume(verifAnd(v > -32768, v < 32768))
		l.Add(v)
		prod *= v
	}
	verifAssert(l.IntProd() == prod, "IntProd equals the wrap-around product of the int elements")
	verifReach("end")
}

var _ = math.Abs

// aggregates after a history: aggregate, then one arbitrary mutator, then aggregate again — the second
// answer is the fold over the *current* content (nothing about an earlier answer may be remembered), and
// the aggregate calls themselves never change the list.
func H_C18_after_mutation() {
	maxN := 2 // thorough keeps 2 elements and adds the Min/Max family (comparison forks over symbolic floats are the cost)
	verifBound("LISTN_HISTORY", maxN)
	n := nondetIntRange(1, maxN)
	l := NewList()
	for i := 0; i < n; i++ {
		if nondetIntRange(0, 1) == 0 {
			l.Add(nondetInt())
		} else {
			l.Add(hFiniteFloat())
		}
	}
	nWhich := 1 // quick: Sum/IntSum and Avg/IntMin; thorough adds Min/IntMax and Max (comparison forks over floats)
	if verifTier() > 0 {
		nWhich = 3
	}
	which := nondetIntRange(0, nWhich)
	call := func() (float64, int) {
		switch which {
		case 0:
			return l.Sum(), l.IntSum()
		case 1:
			return l.Avg(), l.IntMin()
		case 2:
			return l.Min(), l.IntMax()
		default:
			return l.Max(), l.IntSum()
		}
	}
	call()
	mid := hSnapList(l, false)
	switch nondetIntRange(0, 8) {
	case 0:
		l.Add(nondetInt())
	case 1:
		l.Add(hFiniteFloat())
	case 2:
		l.Replace(nondetIntRange(0, n-1), nondetInt())
	case 3:
		l.Replace(nondetIntRange(0, n-1), hFiniteFloat())
	case 4:
		l.Delete(nondetIntRange(0, n-1))
	case 5:
		l.Reverse()
	case 6:
		l.Sort() // on a mixed list Sort keeps only the kind of the first element's family — whatever it leaves is the new content
	case 7:
		l.SetTF("#0", nondetInt())
	default:
		l.Insert(0, hFiniteFloat())
	}
	_ = mid
	// reference folds over the current content
	cur := hSnapList(l, false)
	m := len(cur.elem)
	ok := true
	for _, e := range cur.elem {
		ok = ok && (e.kind == TypeInt || e.kind == TypeFloat)
	}
	if !ok || m == 0 {
		verifReach("end")
		return
	}
	ref := make([]float64, m)
	var ints []int
	for i, e := range cur.elem {
		if e.kind == TypeInt {
			ref[i] = float64(e.i)
			ints = append(ints, e.i)
		} else {
			ref[i] = e.f
		}
	}
	sum, mn, mx := 0.0, ref[0], ref[0]
	for i := 0; i < m; i++ {
		sum += ref[i]
		mn = verifIteFloat(ref[i] < mn, ref[i], mn)
		mx = verifIteFloat(ref[i] > mx, ref[i], mx)
	}
	isum, imn, imx := 0, 0, 0
	for i, v := range ints {
		isum += v
		if i == 0 {
			imn, imx = v, v
		} else {
			imn = verifIteInt(v < imn, v, imn)
			imx = verifIteInt(v > imx, v, imx)
		}
	}
	gf, gi := call()
	switch which {
	case 0:
		verifAssert(hSameFloat(gf, sum) && gi == isum, "after a mutation Sum/IntSum are the folds over the current content")
	case 1:
		verifAssert(hSameFloat(gf, sum/float64(m)) && gi == imn, "after a mutation Avg/IntMin are the folds over the current content")
	case 2:
		verifAssert(gf == mn && gi == imx, "after a mutation Min/IntMax are the folds over the current content")
	default:
		verifAssert(gf == mx && gi == isum, "after a mutation Max/IntSum are the folds over the current content")
	}
	verifAssert(hSameSlots(cur, hSnapList(l, false)), "aggregates do not modify the list")
	verifReach("end")
}
