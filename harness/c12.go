package anytype

// C12 — every stored value is normalised to one of seven kinds, consistently reported.

// hSlot addresses one stored value (list index or object key).
type hSlot struct {
	l List
	i int
	o Object
	k string
}

func (s hSlot) typeOf() Type {
	if s.l != nil {
		return s.l.TypeOf(s.i)
	}
	return s.o.TypeOf(s.k)
}

func (s hSlot) get() any {
	if s.l != nil {
		return s.l.Get(s.i)
	}
	return s.o.Get(s.k)
}

// getter g: 0 object 1 list 2 string 3 bool 4 int 5 float; reports whether it panicked.
func (s hSlot) typedPanics(g int) bool {
	return verifCatch(func() {
		if s.l != nil {
			switch g {
			case 0:
				s.l.GetObject(s.i)
			case 1:
				s.l.GetList(s.i)
			case 2:
				s.l.GetString(s.i)
			case 3:
				s.l.GetBool(s.i)
			case 4:
				s.l.GetInt(s.i)
			default:
				s.l.GetFloat(s.i)
			}
		} else {
			switch g {
			case 0:
				s.o.GetObject(s.k)
			case 1:
				s.o.GetList(s.k)
			case 2:
				s.o.GetString(s.k)
			case 3:
				s.o.GetBool(s.k)
			case 4:
				s.o.GetInt(s.k)
			default:
				s.o.GetFloat(s.k)
			}
		}
	})
}

const hNumEntries = 17

// hStoreVia stores v through insertion entry point e and returns where it ended up.
func hStoreVia(e int, v any) hSlot {
	switch e {
	case 0:
		return hSlot{l: NewList(v), i: 0}
	case 1:
		return hSlot{l: NewListOf(v, 2), i: 1}
	case 2:
		return hSlot{l: NewListFrom([]any{0, v}), i: 1}
	case 3:
		return hSlot{l: NewList(1).Add(2, v), i: 2}
	case 4:
		return hSlot{l: NewList(1, 2).Insert(1, v), i: 1}
	case 5:
		return hSlot{l: NewList(1, 2).Insert(2, v), i: 2}
	case 6:
		return hSlot{l: NewList(1, 2).Replace(0, v), i: 0}
	case 7:
		return hSlot{l: NewList(1).SetTF("#2", v), i: 2}
	case 8:
		return hSlot{l: NewList(1).SetTF("#0", v), i: 0}
	case 9:
		return hSlot{l: NewList(7).Map(func(i int, x any) any { return v }), i: 0}
	case 10:
		return hSlot{l: NewList("s").MapStrings(func(x string) any { return v }), i: 0}
	case 11:
		return hSlot{o: NewObject("a", 1, "k", v), k: "k"}
	case 12:
		return hSlot{o: NewObjectFrom(map[string]any{"k": v}), k: "k"}
	case 13:
		return hSlot{o: NewObject("k", 1).Set("k", v), k: "k"}
	case 14:
		return hSlot{o: NewObject().SetTF(".k", v), k: "k"}
	case 15:
		return hSlot{o: NewObject("k", 1).Map(func(k string, x any) any { return v }), k: "k"}
	default:
		o := NewObject("a", NewList()).SetTF(".a#0", v)
		return hSlot{l: o.GetList("a"), i: 0}
	}
}

// hCheckKind: TypeOf reports want; exactly the matching typed getter succeeds.
func hCheckKind(s hSlot, want Type) {
	verifAssert(s.typeOf() == want, "TypeOf reports the kind of the stored value")
	match := -1
	switch want {
	case TypeObject:
		match = 0
	case TypeList:
		match = 1
	case TypeString:
		match = 2
	case TypeBool:
		match = 3
	case TypeInt:
		match = 4
	case TypeFloat:
		match = 5
	}
	for g := 0; g < 6; g++ {
		p := s.typedPanics(g)
		if g == match {
			verifAssert(!p, "the matching typed getter succeeds")
		} else {
			verifAssert(p, "every non-matching typed getter panics")
		}
	}
}

func hEntry() int { return nondetIntRange(0, hNumEntries-1) }

func H_C12_signed_ints() {
	e := hEntry()
	var v any
	var want int
	lo, hi := 0, 0
	switch nondetIntRange(0, 4) {
	case 0:
		x := nondetInt()
		v, want, lo, hi = x, x, -1<<63, 1<<63-1
	case 1:
		x := nondetInt64()
		v, want, lo, hi = x, int(x), -1<<63, 1<<63-1
	case 2:
		x := nondetInt32()
		v, want, lo, hi = x, int(x), -1<<31, 1<<31-1
	case 3:
		x := nondetInt16()
		v, want, lo, hi = x, int(x), -1<<15, 1<<15-1
	default:
		x := nondetInt8()
		v, want, lo, hi = x, int(x), -1<<7, 1<<7-1
	}
	s := hStoreVia(e, v)
	hCheckKind(s, TypeInt)
	r, ok := s.get().(int)
	verifAssert(ok, "Get returns an int for every signed integer width")
	verifAssert(r == want, "the stored int has the same numeric value")
	verifAssert(verifAnd(r >= lo, r <= hi), "the stored int lies in the source type's range")
	verifObserve("int", r)
	verifReach("end")
}

func H_C12_unsigned_ints() {
	e := hEntry()
	var v any
	var asU uint64
	var max uint64
	switch nondetIntRange(0, 4) {
	case 0:
		x := nondetUint()
		verifAssume(x <= 1<<63-1) // "when representable"
		v, asU, max = x, uint64(x), 1<<63-1
	case 1:
		x := nondetUint64()
		verifAssume(x <= 1<<63-1)
		v, asU, max = x, x, 1<<63-1
	case 2:
		x := nondetUint32()
		v, asU, max = x, uint64(x), 1<<32-1
	case 3:
		x := nondetUint16()
		v, asU, max = x, uint64(x), 1<<16-1
	default:
		x := nondetUint8()
		v, asU, max = x, uint64(x), 1<<8-1
	}
	s := hStoreVia(e, v)
	hCheckKind(s, TypeInt)
	r, ok := s.get().(int)
	verifAssert(ok, "Get returns an int for every unsigned integer width")
	verifAssert(r >= 0, "an unsigned value is stored as a non-negative int")
	verifAssert(uint64(r) == asU, "the stored int has the same numeric value")
	verifAssert(uint64(r) <= max, "the stored int lies in the source type's range")
	verifObserve("uint", r)
	verifReach("end")
}

func H_C12_floats() {
	e := hEntry()
	var v any
	var want float64
	if nondetIntRange(0, 1) == 0 {
		x := nondetFloat64()
		verifAssume(x == x)
		v, want = x, x
	} else {
		x := nondetFloat32() // subnormals, infinities included
		verifAssume(x == x)
		v, want = x, float64(x)
		verifAssert(float32(want) == x, "widening float32 is exact (self-check of the reference)")
	}
	s := hStoreVia(e, v)
	hCheckKind(s, TypeFloat)
	r, ok := s.get().(float64)
	verifAssert(ok, "Get returns a float64 for float32/float64")
	verifAssert(verifFloatBits(r) == verifFloatBits(want), "the stored float64 is exactly the source value")
	verifReach("end")
}

func H_C12_string_bool_nil() {
	e := hEntry()
	switch nondetIntRange(0, 2) {
	case 0:
		x := hBytesStr(nondetIntRange(0, 2))
		s := hStoreVia(e, x)
		hCheckKind(s, TypeString)
		r, ok := s.get().(string)
		verifAssert(ok, "Get returns a string")
		verifAssert(r == x, "the stored string is byte-identical")
	case 1:
		x := nondetBool()
		s := hStoreVia(e, x)
		hCheckKind(s, TypeBool)
		r, ok := s.get().(bool)
		verifAssert(ok, "Get returns a bool")
		verifAssert(r == x, "the stored bool is the same")
	default:
		s := hStoreVia(e, nil)
		hCheckKind(s, TypeNil)
		verifAssert(s.get() == nil, "Get returns nil for a stored nil")
	}
	verifReach("end")
}

// containers are stored by reference: Get hands back the identical value
func H_C12_containers_by_reference() {
	e := hEntry()
	switch nondetIntRange(0, 3) {
	case 2:
		// user-defined containers (structs embedding List/Object, registered with Init) are Lists/Objects too
		in := hDerivedList(nondetInt())
		s := hStoreVia(e, in)
		hCheckKind(s, TypeList)
		r, ok := s.get().(List)
		verifAssert(ok && r == in, "a List is stored by reference")
		verifReach("end")
		return
	case 3:
		in := hDerivedObject("x", nondetInt())
		s := hStoreVia(e, in)
		hCheckKind(s, TypeObject)
		r, ok := s.get().(Object)
		verifAssert(ok && r == in, "an Object is stored by reference")
		verifReach("end")
		return
	}
	if nondetIntRange(0, 1) == 0 {
		in := NewList(nondetInt())
		s := hStoreVia(e, in)
		hCheckKind(s, TypeList)
		r, ok := s.get().(List)
		verifAssert(ok, "Get returns a List")
		verifAssert(r == in, "a List is stored by reference")
	} else {
		in := NewObject("x", nondetInt())
		s := hStoreVia(e, in)
		hCheckKind(s, TypeObject)
		r, ok := s.get().(Object)
		verifAssert(ok, "Get returns an Object")
		verifAssert(r == in, "an Object is stored by reference")
	}
	verifReach("end")
}

// the 14 supported Go map/slice flavours become fresh containers with the same content
func H_C12_compound() {
	e := hEntry()
	fl := nondetIntRange(0, 13)
	a, b := nondetInt(), nondetInt()
	fa, fb := hFiniteFloat(), hFiniteFloat()
	sa, sb := hBytesStr(1), hBytesStr(1)
	ba, bb := nondetBool(), nondetBool()
	il, io := NewList(a), NewObject("q", b)
	// interface-typed flavours may hold a nil interface element: it is stored as the nil kind
	var o0, o1 Object = io, io
	var l0, l1 List = il, il
	nilAt := 0
	if fl == 1 || fl == 2 || fl == 8 || fl == 9 {
		nilAt = nondetIntRange(0, 2)
		if nilAt == 1 {
			o0, l0 = nil, nil
		} else if nilAt == 2 {
			o1, l1 = nil, nil
		}
	}
	var v any
	var wantKinds [2]Type
	isList := fl < 7
	switch fl {
	case 0:
		v, wantKinds = []any{a, sa}, [2]Type{TypeInt, TypeString}
	case 1:
		v, wantKinds = []Object{o0, o1}, [2]Type{TypeObject, TypeObject}
	case 2:
		v, wantKinds = []List{l0, l1}, [2]Type{TypeList, TypeList}
	case 3:
		v, wantKinds = []string{sa, sb}, [2]Type{TypeString, TypeString}
	case 4:
		v, wantKinds = []bool{ba, bb}, [2]Type{TypeBool, TypeBool}
	case 5:
		v, wantKinds = []int{a, b}, [2]Type{TypeInt, TypeInt}
	case 6:
		v, wantKinds = []float64{fa, fb}, [2]Type{TypeFloat, TypeFloat}
	case 7:
		v, wantKinds = map[string]any{"x": a, "y": sa}, [2]Type{TypeInt, TypeString}
	case 8:
		v, wantKinds = map[string]Object{"x": o0, "y": o1}, [2]Type{TypeObject, TypeObject}
	case 9:
		v, wantKinds = map[string]List{"x": l0, "y": l1}, [2]Type{TypeList, TypeList}
	case 10:
		v, wantKinds = map[string]string{"x": sa, "y": sb}, [2]Type{TypeString, TypeString}
	case 11:
		v, wantKinds = map[string]bool{"x": ba, "y": bb}, [2]Type{TypeBool, TypeBool}
	case 12:
		v, wantKinds = map[string]int{"x": a, "y": b}, [2]Type{TypeInt, TypeInt}
	default:
		v, wantKinds = map[string]float64{"x": fa, "y": fb}, [2]Type{TypeFloat, TypeFloat}
	}
	if nilAt > 0 {
		wantKinds[nilAt-1] = TypeNil
	}
	s := hStoreVia(e, v)
	var got [2]mval
	if isList {
		hCheckKind(s, TypeList)
		c := s.get().(List)
		verifAssert(c.Count() == 2, "a Go slice becomes a List of the same length")
		got[0] = hSnapValue(c.TypeOf(0), c.Get(0), false)
		got[1] = hSnapValue(c.TypeOf(1), c.Get(1), false)
	} else {
		hCheckKind(s, TypeObject)
		c := s.get().(Object)
		verifAssert(c.Count() == 2, "a Go map becomes an Object with the same key set")
		verifAssert(verifAnd(c.KeyExists("x"), c.KeyExists("y")), "a Go map becomes an Object with the same key set")
		got[0] = hSnapValue(c.TypeOf("x"), c.Get("x"), false)
		got[1] = hSnapValue(c.TypeOf("y"), c.Get("y"), false)
	}
	verifAssert(verifAnd(got[0].kind == wantKinds[0], got[1].kind == wantKinds[1]), "elements of a converted slice/map keep their kinds")
	var want [2]mval
	switch fl % 7 {
	case 0:
		want = [2]mval{{kind: TypeInt, i: a}, {kind: TypeString, s: sa}}
	case 1:
		want = [2]mval{{kind: TypeObject, ref: io}, {kind: TypeObject, ref: io}}
	case 2:
		want = [2]mval{{kind: TypeList, ref: il}, {kind: TypeList, ref: il}}
	case 3:
		want = [2]mval{{kind: TypeString, s: sa}, {kind: TypeString, s: sb}}
	case 4:
		want = [2]mval{{kind: TypeBool, b: ba}, {kind: TypeBool, b: bb}}
	case 5:
		want = [2]mval{{kind: TypeInt, i: a}, {kind: TypeInt, i: b}}
	default:
		want = [2]mval{{kind: TypeFloat, f: fa}, {kind: TypeFloat, f: fb}}
	}
	if nilAt > 0 {
		want[nilAt-1] = mval{kind: TypeNil}
	}
	verifAssert(verifAnd(hSameShallow(got[0], want[0]), hSameShallow(got[1], want[1])), "elements of a converted slice/map keep their values (containers by reference)")
	verifReach("end")
}

// nil and empty slices/maps of every supported flavour become empty containers
func H_C12_compound_empty() {
	e := hEntry()
	fl := nondetIntRange(0, 13)
	isNil := nondetIntRange(0, 1) == 1
	var v any
	switch fl {
	case 0:
		v = []any{}
		if isNil {
			v = []any(nil)
		}
	case 1:
		v = []Object{}
		if isNil {
			v = []Object(nil)
		}
	case 2:
		v = []List{}
		if isNil {
			v = []List(nil)
		}
	case 3:
		v = []string{}
		if isNil {
			v = []string(nil)
		}
	case 4:
		v = []bool{}
		if isNil {
			v = []bool(nil)
		}
	case 5:
		v = []int{}
		if isNil {
			v = []int(nil)
		}
	case 6:
		v = []float64{}
		if isNil {
			v = []float64(nil)
		}
	case 7:
		v = map[string]any{}
		if isNil {
			v = map[string]any(nil)
		}
	case 8:
		v = map[string]Object{}
		if isNil {
			v = map[string]Object(nil)
		}
	case 9:
		v = map[string]List{}
		if isNil {
			v = map[string]List(nil)
		}
	case 10:
		v = map[string]string{}
		if isNil {
			v = map[string]string(nil)
		}
	case 11:
		v = map[string]bool{}
		if isNil {
			v = map[string]bool(nil)
		}
	case 12:
		v = map[string]int{}
		if isNil {
			v = map[string]int(nil)
		}
	default:
		v = map[string]float64{}
		if isNil {
			v = map[string]float64(nil)
		}
	}
	s := hStoreVia(e, v)
	if fl < 7 {
		hCheckKind(s, TypeList)
		c := s.get().(List)
		verifAssert(c.Count() == 0 && c.Empty(), "an empty or nil Go slice becomes an empty List")
		verifAssert(c.String() == "[]", "an empty or nil Go slice becomes an empty List")
	} else {
		hCheckKind(s, TypeObject)
		c := s.get().(Object)
		verifAssert(c.Count() == 0 && c.Empty(), "an empty or nil Go map becomes an empty Object")
		verifAssert(c.String() == "{}", "an empty or nil Go map becomes an empty Object")
	}
	verifReach("end")
}

type hStructT struct{ a int }

// defined types over supported underlying types are "other Go types" too
type hNamedInt16 int16
type hNamedInt64 int64
type hNamedFloat32 float32
type hNamedString string
type hNamedSlice []any
type hNamedMap map[string]any

// values of any other Go type are rejected with a panic and leave the container unchanged
func H_C12_reject() {
	var v any
	x := nondetInt()
	switch nondetIntRange(0, 22) {
	case 12:
		v = hNamedInt16(x)
	case 13:
		v = hNamedInt64(x)
	case 14:
		v = hNamedFloat32(1.5)
	case 15:
		v = hNamedString("s")
	case 16:
		v = hNamedSlice{x}
	case 17:
		v = hNamedMap{"a": x}
	case 18:
		v = (*int)(nil) // typed nil values of unsupported types are values of unsupported types
	case 19:
		v = (func())(nil)
	case 20:
		v = []byte(nil)
	case 21:
		v = (chan int)(nil)
	case 22:
		v = map[int]any(nil)
	case 0:
		v = []byte{byte(x)}
	case 1:
		v = []int32{int32(x)}
	case 2:
		v = [2]int{x, x}
	case 3:
		v = map[int]any{x: x}
	case 4:
		v = map[string]int8{"a": int8(x)}
	case 5:
		v = hStructT{x}
	case 6:
		v = &x
	case 7:
		v = uintptr(x)
	case 8:
		v = func() {}
	case 9:
		v = []uint{uint(x)}
	case 10:
		v = map[string][]int{"a": {x}}
	default:
		v = &hStructT{x}
	}
	l := NewList(1, "a")
	o := NewObject("a", 1)
	lb, ob := hSnapList(l, false), hSnapObject(o, false)
	var p bool
	switch nondetIntRange(0, 9) {
	case 0:
		p = verifCatch(func() { NewList(v) })
	case 1:
		p = verifCatch(func() { NewListOf(v, 1) })
	case 2:
		p = verifCatch(func() { NewListFrom([]any{v}) })
	case 3:
		p = verifCatch(func() { l.Add(v) })
	case 4:
		p = verifCatch(func() { l.Insert(1, v) })
	case 5:
		p = verifCatch(func() { l.Replace(0, v) })
	case 6:
		p = verifCatch(func() { NewObject("k", v) })
	case 7:
		p = verifCatch(func() { o.Set("a", v) })
	case 8:
		p = verifCatch(func() { NewObjectFrom(map[string]any{"k": v}) })
	default:
		p = verifCatch(func() { l.Map(func(i int, e any) any { return v }) })
	}
	verifAssert(p, "a value of an unsupported Go type is rejected with a panic")
	verifAssert(hSameSlots(lb, hSnapList(l, false)), "a rejected value leaves the list unchanged")
	verifAssert(hSameSlots(ob, hSnapObject(o, false)), "a rejected value leaves the object unchanged")
	verifReach("end")
}

// containers in their degenerate forms (no elements, built by every constructor and deriving operation), stored in
// another container through Add and Set and read back: TypeOf, Get and the typed getter agree, identity is kept
func H_C12_degenerate_containers_stored() {
	var v any
	k := nondetIntRange(0, 13)
	switch k {
	case 0:
		v = NewListOf(nondetInt(), 0)
	case 1:
		v = NewList()
	case 2:
		v = NewListFrom([]int{})
	case 3:
		v = NewListFrom([]any{})
	case 4:
		v = NewList(1, 2).SubList(1, 1)
	case 5:
		v = NewList().Clone()
	case 6:
		v = NewList().Concat(NewList())
	case 7:
		l, _ := ParseList("[]")
		v = l
	case 8:
		v = NewList(1).Filter(func(any) bool { return false })
	case 9:
		v = NewObject()
	case 10:
		v = NewObjectFrom(map[string]any{})
	case 11:
		v = NewObject().Clone()
	case 12:
		o, _ := ParseObject("{}")
		v = o
	default:
		v = NewObject("a", 1).Keys().Clear()
	}
	_, isList := v.(List)
	outerL := NewList(0).Add(v)
	outerO := NewObject("k", v)
	outerT := NewList().SetTF("#0.f", v)
	if isList {
		verifAssert(outerL.TypeOf(1) == TypeList && outerO.TypeOf("k") == TypeList && outerT.TypeOfTF("#0.f") == TypeList, "a stored empty list reports TypeList")
		g1, ok1 := outerL.Get(1).(List)
		g2, ok2 := outerO.Get("k").(List)
		g3, ok3 := outerT.GetTF("#0.f").(List)
		verifAssert(ok1 && ok2 && ok3, "Get returns a stored empty list as a List")
		p := verifCatch(func() {
			verifAssert(outerL.GetList(1) == g1 && outerO.GetList("k") == g2, "GetList returns what Get returns")
		})
		verifAssert(!p, "GetList on a stored empty list does not panic")
		if ok1 && ok2 && ok3 {
			verifAssert(g1 == v && g2 == v && g3 == v, "the stored empty list is the list that was passed in")
			verifAssert(g1.Count() == 0 && g1.Empty(), "it is still empty")
			g1.Add(7)
			verifAssert(v.(List).Count() == 1 && outerO.GetList("k").GetInt(0) == 7, "and it is one container seen through every holder")
		}
	} else {
		verifAssert(outerL.TypeOf(1) == TypeObject && outerO.TypeOf("k") == TypeObject && outerT.TypeOfTF("#0.f") == TypeObject, "a stored empty object reports TypeObject")
		g1, ok1 := outerL.Get(1).(Object)
		g2, ok2 := outerO.Get("k").(Object)
		g3, ok3 := outerT.GetTF("#0.f").(Object)
		verifAssert(ok1 && ok2 && ok3, "Get returns a stored empty object as an Object")
		p := verifCatch(func() {
			verifAssert(outerL.GetObject(1) == g1 && outerO.GetObject("k") == g2, "GetObject returns what Get returns")
		})
		verifAssert(!p, "GetObject on a stored empty object does not panic")
		if ok1 && ok2 && ok3 {
			verifAssert(g1 == v && g2 == v && g3 == v, "the stored empty object is the object that was passed in")
			g1.Set("n", 7)
			verifAssert(v.(Object).Count() == 1 && outerO.GetObject("k").GetInt("n") == 7, "and it is one container seen through every holder")
		}
	}
	verifReach("end")
}
