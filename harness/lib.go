package anytype

import "math"

// ---- symbolic value generators (all content symbolic; shapes forked) ----

const (
	hkNil = iota
	hkBool
	hkInt
	hkFloat
	hkString
)

func hFiniteFloat() float64 {
	f := nondetFloat64()
	verifAssume(f == f)
	verifAssume(!math.IsInf(f, 0))
	return f
}

func hNonNaNFloat() float64 {
	f := nondetFloat64()
	verifAssume(f == f)
	return f
}

func hValidRune() rune {
	r := nondetRune()
	verifAssume(verifAnd(r >= 0, r <= 0x10FFFF))
	verifAssume(verifOr(r < 0xD800, r > 0xDFFF))
	return r
}

// hString: 0..maxRunes arbitrary Unicode scalar values (valid UTF-8 by construction).
func hString(maxRunes int) string {
	n := nondetIntRange(0, maxRunes)
	s := ""
	for i := 0; i < n; i++ {
		s += string(hValidRune())
	}
	return s
}

// hAscii: exactly n printable-ASCII bytes (one path).
func hAscii(n int) string {
	b := make([]byte, n)
	for i := 0; i < n; i++ {
		c := nondetByte()
		verifAssume(verifAnd(c >= 0x20, c < 0x7f))
		b[i] = c
	}
	return string(b)
}

// hBytesStr: exactly n arbitrary bytes as a string (one path).
func hBytesStr(n int) string {
	b := make([]byte, n)
	for i := 0; i < n; i++ {
		b[i] = nondetByte()
	}
	return string(b)
}

func hScalarOf(k int) any {
	switch k {
	case hkNil:
		return nil
	case hkBool:
		return nondetBool()
	case hkInt:
		return nondetInt()
	case hkFloat:
		return hFiniteFloat()
	default:
		return hBytesStr(nondetIntRange(0, 1))
	}
}

func hAnyScalar() any { return hScalarOf(nondetIntRange(hkNil, hkString)) }

func hListWithSpare(n, spare int) List {
	l := NewListOf(nil, n+spare)
	for i := 0; i < spare; i++ {
		l.Pop()
	}
	return l
}

// ---- snapshots (the sequence / map model) ----

type mval struct {
	kind Type
	b    bool
	i    int
	f    float64
	s    string
	ref  any // identity of a nested container (interface value as stored)
	elem []mval
	keys []string
}

func hSnapValue(t Type, v any, deep bool) mval {
	m := mval{kind: t}
	switch t {
	case TypeBool:
		m.b = v.(bool)
	case TypeInt:
		m.i = v.(int)
	case TypeFloat:
		m.f = v.(float64)
	case TypeString:
		m.s = v.(string)
	case TypeList:
		m.ref = v
		if deep {
			m.elem = hSnapList(v.(List), deep).elem
		}
	case TypeObject:
		m.ref = v
		if deep {
			o := hSnapObject(v.(Object), deep)
			m.elem, m.keys = o.elem, o.keys
		}
	}
	return m
}

func hSnapList(l List, deep bool) mval {
	n := l.Count()
	m := mval{kind: TypeList, ref: l, elem: make([]mval, n)}
	for i := 0; i < n; i++ {
		m.elem[i] = hSnapValue(l.TypeOf(i), l.Get(i), deep)
	}
	return m
}

// hSnapObject lists fields in the order of keys (caller supplies a stable key order through Keys()).
func hSnapObject(o Object, deep bool) mval {
	ks := o.Keys()
	n := ks.Count()
	m := mval{kind: TypeObject, ref: o, elem: make([]mval, n), keys: make([]string, n)}
	for i := 0; i < n; i++ {
		k := ks.GetString(i)
		m.keys[i] = k
		m.elem[i] = hSnapValue(o.TypeOf(k), o.Get(k), deep)
	}
	return m
}

// hSameShallow: same kind, same scalar value (floats by bits, so -0 != +0 and nothing is lost),
// same container identity. Returns a term; does not fork on scalar content.
func hSameShallow(a, b mval) bool {
	if a.kind != b.kind {
		return false
	}
	switch a.kind {
	case TypeBool:
		return a.b == b.b
	case TypeInt:
		return a.i == b.i
	case TypeFloat:
		return verifFloatBits(a.f) == verifFloatBits(b.f)
	case TypeString:
		return a.s == b.s
	case TypeList, TypeObject:
		return a.ref == b.ref
	}
	return true
}

// hSameList: element-wise hSameShallow on the top-level slots.
func hSameSlots(a, b mval) bool {
	if len(a.elem) != len(b.elem) {
		return false
	}
	r := true
	for i := range a.elem {
		r = verifAnd(r, hSameShallow(a.elem[i], b.elem[i]))
	}
	return r
}

// refeq: typed structural equality on deep snapshots (reference oracle for Equals).
func hRefEq(a, b mval) bool {
	if a.kind != b.kind {
		return false
	}
	switch a.kind {
	case TypeBool:
		return a.b == b.b
	case TypeInt:
		return a.i == b.i
	case TypeFloat:
		return a.f == b.f
	case TypeString:
		return a.s == b.s
	case TypeList:
		if len(a.elem) != len(b.elem) {
			return false
		}
		r := true
		for i := range a.elem {
			r = verifAnd(r, hRefEq(a.elem[i], b.elem[i]))
		}
		return r
	case TypeObject:
		if len(a.elem) != len(b.elem) {
			return false
		}
		// every field of a has an equal field of b under an equal key (keys pairwise distinct on each side)
		r := true
		for i := range a.elem {
			found := false
			for j := range b.elem {
				found = verifOr(found, verifAnd(a.keys[i] == b.keys[j], hRefEq(a.elem[i], b.elem[j])))
			}
			r = verifAnd(r, found)
		}
		return r
	}
	return true
}
