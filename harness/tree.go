package anytype

// Recipe trees: one symbolic description from which an anytype container, the equivalent native
// Go value and the expected snapshot are all built.

type hNode struct {
	kind Type
	b    bool
	i    int
	f    float64
	s    string
	kids []*hNode
	keys []string
}

type hGen struct {
	scalars  []Type // scalar kinds to choose from
	width    int    // max children per container
	keyBytes int    // bytes per symbolic key
	strBytes int    // max bytes per symbolic string value
	strMin   int    // min bytes per symbolic string value
	intBound int    // if > 0: |int| < intBound
	simpleF  bool   // floats restricted to k/4, |k| < 1024 (cheap to print/compare)
	nonNeg   bool   // ints restricted to 0 <= i < intBound
	fixKeys  bool   // concrete keys "a","b","c" instead of symbolic ones
}

var hAllScalars = []Type{TypeNil, TypeBool, TypeInt, TypeFloat, TypeString}

func (g *hGen) scalar(k Type) *hNode {
	n := &hNode{kind: k}
	switch k {
	case TypeBool:
		n.b = nondetBool()
	case TypeInt:
		n.i = nondetInt()
		if g.intBound > 0 {
			if g.nonNeg {
				verifAssume(verifAnd(n.i >= 0, n.i < g.intBound))
			} else {
				verifAssume(verifAnd(n.i > -g.intBound, n.i < g.intBound))
			}
		}
	case TypeFloat:
		if g.simpleF {
			k := nondetInt()
			verifAssume(verifAnd(k > -1024, k < 1024))
			n.f = float64(k) / 4
		} else {
			n.f = hFiniteFloat()
		}
	case TypeString:
		n.s = hBytesStr(nondetIntRange(g.strMin, g.strBytes))
	}
	return n
}

// value: a scalar, or (if depth > 0) a container with up to width children of depth-1.
func (g *hGen) value(depth int) *hNode {
	ns := len(g.scalars)
	c := nondetIntRange(0, ns+1)
	if c < ns {
		return g.scalar(g.scalars[c])
	}
	if c == ns {
		return g.list(depth)
	}
	return g.object(depth)
}

// list of depth d: children are values of depth d-1 (d == 0: empty list only)
func (g *hGen) list(depth int) *hNode {
	n := &hNode{kind: TypeList}
	if depth <= 0 {
		return n
	}
	cnt := nondetIntRange(0, g.width)
	for i := 0; i < cnt; i++ {
		n.kids = append(n.kids, g.value(depth-1))
	}
	return n
}

func (g *hGen) object(depth int) *hNode {
	n := &hNode{kind: TypeObject}
	if depth <= 0 {
		return n
	}
	cnt := nondetIntRange(0, g.width)
	for i := 0; i < cnt; i++ {
		var k string
		if g.fixKeys {
			k = string([]byte{byte('a' + i)})
		} else {
			k = hBytesStr(g.keyBytes)
			for _, prev := range n.keys {
				verifAssume(k != prev)
			}
		}
		n.keys = append(n.keys, k)
		n.kids = append(n.kids, g.value(depth-1))
	}
	return n
}

func (n *hNode) build() any {
	switch n.kind {
	case TypeBool:
		return n.b
	case TypeInt:
		return n.i
	case TypeFloat:
		return n.f
	case TypeString:
		return n.s
	case TypeList:
		l := NewList()
		for _, k := range n.kids {
			l.Add(k.build())
		}
		return l
	case TypeObject:
		o := NewObject()
		for i, k := range n.kids {
			o.Set(n.keys[i], k.build())
		}
		return o
	}
	return nil
}

func (n *hNode) native() any {
	switch n.kind {
	case TypeBool:
		return n.b
	case TypeInt:
		return n.i
	case TypeFloat:
		return n.f
	case TypeString:
		return n.s
	case TypeList:
		l := make([]any, 0, len(n.kids))
		for _, k := range n.kids {
			l = append(l, k.native())
		}
		return l
	case TypeObject:
		o := make(map[string]any, len(n.kids))
		for i, k := range n.kids {
			o[n.keys[i]] = k.native()
		}
		return o
	}
	return nil
}

// snap: the expected deep snapshot (no identities)
func (n *hNode) snap() mval {
	m := mval{kind: n.kind, b: n.b, i: n.i, f: n.f, s: n.s}
	for _, k := range n.kids {
		m.elem = append(m.elem, k.snap())
	}
	m.keys = n.keys
	return m
}

func hSnapAny(v any) mval {
	switch c := v.(type) {
	case List:
		return hSnapList(c, true)
	case Object:
		return hSnapObject(c, true)
	case nil:
		return mval{kind: TypeNil}
	case bool:
		return mval{kind: TypeBool, b: c}
	case int:
		return mval{kind: TypeInt, i: c}
	case float64:
		return mval{kind: TypeFloat, f: c}
	case string:
		return mval{kind: TypeString, s: c}
	}
	return mval{kind: TypeUndefined}
}

// hExact: like hRefEq but floats by bit pattern (nothing may be altered at all) and order-sensitive for lists.
func hExact(a, b mval) bool {
	if a.kind != b.kind {
		return false
	}
	switch a.kind {
	case TypeBool:
		return a.b == b.b
	case TypeInt:
		return a.i == b.i
	case TypeFloat:
		return verifFloatBits(a.f) == verifFloatBits(b.f)
	case TypeString:
		return a.s == b.s
	case TypeList:
		if len(a.elem) != len(b.elem) {
			return false
		}
		r := true
		for i := range a.elem {
			r = verifAnd(r, hExact(a.elem[i], b.elem[i]))
		}
		return r
	case TypeObject:
		if len(a.elem) != len(b.elem) {
			return false
		}
		r := true
		for i := range a.elem {
			found := false
			for j := range b.elem {
				found = verifOr(found, verifAnd(a.keys[i] == b.keys[j], hExact(a.elem[i], b.elem[j])))
			}
			r = verifAnd(r, found)
		}
		return r
	}
	return true
}

// hContainers collects every List/Object reachable from v (itself included), by identity.
func hContainers(v any, out *[]any) {
	switch c := v.(type) {
	case List:
		*out = append(*out, c)
		for i := 0; i < c.Count(); i++ {
			hContainers(c.Get(i), out)
		}
	case Object:
		*out = append(*out, c)
		ks := c.Keys()
		for i := 0; i < ks.Count(); i++ {
			hContainers(c.Get(ks.GetString(i)), out)
		}
	}
}
