package anytype

// C05 — List is an ordered sequence with reference semantics under any program.
// Pre-state = arbitrary small heap (lists with/without spare capacity, nested by reference);
// one or two arbitrary operations; every live list is compared with the sequence model.

type hHeap struct {
	lists  []List
	models [][]mval // expected top-level slots of each live list
	obj    Object   // a live object that list operations must never change
	objM   mval
}

func mCopy(s []mval) []mval {
	out := make([]mval, len(s))
	copy(out, s)
	return out
}

func mInsert(s []mval, i int, v mval) []mval {
	out := make([]mval, 0, len(s)+1)
	out = append(out, s[:i]...)
	out = append(out, v)
	out = append(out, s[i:]...)
	return out
}

func mDelete(s []mval, i int) []mval {
	out := make([]mval, 0, len(s))
	out = append(out, s[:i]...)
	out = append(out, s[i+1:]...)
	return out
}

// hConc returns the concrete value of a symbolic int known to lie in [lo,hi].
func hConc(v, lo, hi int) int {
	for k := lo; k <= hi; k++ {
		if v == k {
			return k
		}
	}
	verifAssume(false)
	return lo
}

func (h *hHeap) add(l List, m []mval) int {
	h.lists = append(h.lists, l)
	h.models = append(h.models, m)
	return len(h.lists) - 1
}

func (h *hHeap) check(what string) {
	for i, l := range h.lists {
		got := hSnapList(l, false)
		verifAssert(hSameSlots(mval{elem: h.models[i]}, got), what)
	}
	if h.obj != nil {
		verifAssert(hSameSlots(h.objM, hSnapObject(h.obj, false)), "list operations never change an unrelated object")
	}
}

// value to store: a symbolic scalar or a reference to a live container
func (h *hHeap) someValue(kinds int) (any, mval) {
	switch nondetIntRange(0, kinds-1) {
	case 0:
		v := nondetInt()
		return v, mval{kind: TypeInt, i: v}
	case 1:
		l := h.lists[len(h.lists)-1] // most recently added live list (acyclic use: callers pass a non-ancestor)
		return l, mval{kind: TypeList, ref: l}
	case 2:
		return h.obj, mval{kind: TypeObject, ref: h.obj}
	default:
		s := hBytesStr(1)
		return s, mval{kind: TypeString, s: s}
	}
}

// hMkHeap builds: B (0..1 ints), O, and A (n slots, spare capacity) whose elements are ints, B or O.
func hMkHeap(minN, maxN, kinds int) *hHeap {
	h := &hHeap{}
	h.obj = NewObject("k", nondetInt())
	h.objM = hSnapObject(h.obj, false)
	b := NewList()
	var bm []mval
	if nondetIntRange(0, 1) == 1 {
		v := nondetInt()
		b.Add(v)
		bm = append(bm, mval{kind: TypeInt, i: v})
	}
	h.add(b, bm)
	n := nondetIntRange(minN, maxN)
	spare := nondetIntRange(0, 1)
	var a List
	am := make([]mval, n)
	if n >= 2 && nondetIntRange(0, 1) == 1 {
		// NewListOf pre-state: every slot holds the same value (and, in the implementation, possibly one shared wrapper)
		v := nondetInt()
		a = NewListOf(v, n+spare)
		for i := 0; i < spare; i++ {
			a.Pop()
		}
		for i := 0; i < n; i++ {
			am[i] = mval{kind: TypeInt, i: v}
		}
	} else {
		a = hListWithSpare(n, spare)
		for i := 0; i < n; i++ {
			v, m := h.someValue(kinds)
			a.Replace(i, v)
			am[i] = m
		}
	}
	h.lists = append([]List{a}, h.lists...)
	h.models = append([][]mval{am}, h.models...)
	return h
}

const (
	opAdd1 = iota
	opAdd2
	opInsert
	opReplace
	opDelete1
	opDelete2
	opPop
	opClear
	opReverse
	opSubList
	opConcat
	opGet
	opTyped
	opTypeOf
	opCountEmpty
	opSlice
	opContains
	opIndexOf
	opNewListOf
	opNewListFrom
	opSortInts
	opContainsTwin
	hNumListOps
)

var hMutatorOps = []int{opAdd1, opInsert, opReplace, opDelete1, opPop, opClear, opReverse}

// apply runs operation op on live list t, checks panic domain and result against the model,
// and updates the model. Arguments are symbolic (indices are full-range ints).
func (h *hHeap) apply(t int, op int) {
	l := h.lists[t]
	m := h.models[t]
	n := len(m)
	switch op {
	case opAdd1:
		v, mv := h.valueFor(t)
		ret := l.Add(v)
		verifAssert(ret == l, "Add returns the list")
		h.models[t] = append(mCopy(m), mv)
	case opAdd2:
		v1, m1 := h.valueFor(t)
		v2, m2 := h.valueFor(t)
		l.Add(v1, v2)
		h.models[t] = append(append(mCopy(m), m1), m2)
	case opInsert:
		idx := nondetInt()
		v, mv := h.valueFor(t)
		p := verifCatch(func() { l.Insert(idx, v) })
		verifAssert(p == verifOr(idx < 0, idx > n), "Insert panics exactly when the index is outside 0..n")
		if !p {
			h.models[t] = mInsert(m, hConc(idx, 0, n), mv)
		}
	case opReplace:
		idx := nondetInt()
		v, mv := h.valueFor(t)
		p := verifCatch(func() { l.Replace(idx, v) })
		verifAssert(p == verifOr(idx < 0, idx >= n), "Replace panics exactly when the index is outside 0..n-1")
		if !p {
			nm := mCopy(m)
			nm[hConc(idx, 0, n-1)] = mv
			h.models[t] = nm
		}
	case opDelete1:
		idx := nondetInt()
		p := verifCatch(func() { l.Delete(idx) })
		verifAssert(p == verifOr(idx < 0, idx >= n), "Delete panics exactly when the index is outside 0..n-1")
		if !p {
			h.models[t] = mDelete(m, hConc(idx, 0, n-1))
		}
	case opDelete2:
		i, j := nondetInt(), nondetInt()
		verifAssume(i != j)
		verifAssume(verifAnd(verifAnd(i >= 0, i < n), verifAnd(j >= 0, j < n)))
		l.Delete(i, j)
		ci, cj := hConc(i, 0, n-1), hConc(j, 0, n-1)
		if ci < cj {
			ci, cj = cj, ci
		}
		h.models[t] = mDelete(mDelete(m, ci), cj)
	case opPop:
		p := verifCatch(func() { l.Pop() })
		verifAssert(p == (n == 0), "Pop panics exactly on an empty list")
		if !p {
			h.models[t] = mCopy(m[:n-1])
		}
	case opClear:
		l.Clear()
		h.models[t] = nil
	case opReverse:
		l.Reverse()
		nm := make([]mval, n)
		for i := range m {
			nm[n-1-i] = m[i]
		}
		h.models[t] = nm
	case opSubList:
		start, end := nondetInt(), nondetInt()
		var r List
		p := verifCatch(func() { r = l.SubList(start, end) })
		e2 := verifIteInt(end <= 0, n+end, end)
		bad := verifOr(verifOr(end > n, end < -n), verifOr(start < 0, start > e2))
		verifAssert(p == bad, "SubList panics exactly outside its documented domain")
		if !p {
			cs, ce := hConc(start, 0, n), hConc(e2, 0, n)
			h.add(r, mCopy(m[cs:ce]))
		}
	case opConcat:
		o := nondetIntRange(0, len(h.lists)-1)
		r := l.Concat(h.lists[o])
		nm := append(mCopy(m), h.models[o]...)
		h.add(r, nm)
	case opGet:
		idx := nondetInt()
		var got any
		p := verifCatch(func() { got = l.Get(idx) })
		verifAssert(p == verifOr(idx < 0, idx >= n), "Get panics exactly when the index is outside 0..n-1")
		if !p {
			c := hConc(idx, 0, n-1)
			verifAssert(hSameShallow(hSnapValue(m[c].kind, got, false), m[c]), "Get returns the stored value (the identical container)")
		}
	case opTyped:
		idx := nondetInt()
		verifAssume(verifAnd(idx >= 0, idx < n))
		c := hConc(idx, 0, n-1)
		pi := verifCatch(func() { l.GetInt(idx) })
		pl := verifCatch(func() { l.GetList(idx) })
		po := verifCatch(func() { l.GetObject(idx) })
		ps := verifCatch(func() { l.GetString(idx) })
		verifAssert(pi == (m[c].kind != TypeInt) && pl == (m[c].kind != TypeList) && po == (m[c].kind != TypeObject) && ps == (m[c].kind != TypeString), "a typed getter panics exactly when the element has another kind")
	case opTypeOf:
		idx := nondetInt()
		var ty Type
		p := verifCatch(func() { ty = l.TypeOf(idx) })
		verifAssert(!p, "TypeOf never panics")
		if idx >= 0 && idx < n {
			verifAssert(ty == m[hConc(idx, 0, n-1)].kind, "TypeOf reports the kind of the element")
		} else {
			verifAssert(ty == TypeUndefined, "TypeOf is Undefined outside 0..n-1")
		}
	case opCountEmpty:
		verifAssert(l.Count() == n, "Count is the length of the sequence")
		verifAssert(l.Empty() == (n == 0), "Empty iff length 0")
	case opSlice:
		s := l.Slice()
		ok := len(s) == n
		for i := 0; i < n && i < len(s); i++ {
			ok = verifAnd(ok, hSameShallow(hSnapValue(m[i].kind, s[i], false), m[i]))
		}
		verifAssert(ok, "Slice lists the elements in order")
	case opContains, opIndexOf:
		v, mv := h.valueFor(-1)
		first := -1
		for i := n - 1; i >= 0; i-- {
			first = verifIteInt(hSameShallow(m[i], mv), i, first)
		}
		if op == opContains {
			verifAssert(l.Contains(v) == (first >= 0), "Contains iff some element is the same value / identical container")
		} else {
			verifAssert(l.IndexOf(v) == first, "IndexOf is the first position holding the value, or -1")
		}
	case opContainsTwin:
		// a fresh container with the same content as a stored one is a different value (containers are held
		// and compared by reference)
		var twin any
		if nondetIntRange(0, 1) == 0 {
			twin = h.lists[len(h.lists)-1].Clone()
		} else {
			twin = h.obj.Clone()
		}
		verifAssert(!l.Contains(twin), "Contains iff some element is the same value / identical container")
		verifAssert(l.IndexOf(twin) == -1, "IndexOf is the first position holding the value, or -1")
	case opNewListOf:
		v, mv := h.valueFor(-1)
		cnt := nondetIntRange(0, 2)
		r := NewListOf(v, cnt)
		nm := make([]mval, cnt)
		for i := range nm {
			nm[i] = mv
		}
		h.add(r, nm)
	case opNewListFrom:
		v, mv := h.valueFor(-1)
		r := NewListFrom([]any{v, v})
		h.add(r, []mval{mv, mv})
	case opSortInts:
		all := n > 0
		for _, e := range m {
			all = all && e.kind == TypeInt
		}
		if !all || n > 2 {
			verifAssume(false)
		}
		l.Sort()
		if n == 2 {
			lo := verifIteInt(m[0].i <= m[1].i, m[0].i, m[1].i)
			hi := verifIteInt(m[0].i <= m[1].i, m[1].i, m[0].i)
			h.models[t] = []mval{{kind: TypeInt, i: lo}, {kind: TypeInt, i: hi}}
		}
	}
}

// valueFor picks a value that may be stored into list t without creating a cycle:
// ints, strings, the object, or list B (index 1) unless t is B itself.
func (h *hHeap) valueFor(t int) (any, mval) {
	k := nondetIntRange(0, 3)
	switch k {
	case 0:
		v := nondetInt()
		return v, mval{kind: TypeInt, i: v}
	case 1:
		s := hBytesStr(1)
		return s, mval{kind: TypeString, s: s}
	case 2:
		return h.obj, mval{kind: TypeObject, ref: h.obj}
	default:
		if t == 1 {
			verifAssume(false)
		}
		return h.lists[1], mval{kind: TypeList, ref: h.lists[1]}
	}
}

func H_C05_step() {
	maxN := 2
	if verifTier() > 0 {
		maxN = 3
	}
	verifBound("LISTN", maxN)
	verifBound("SPARE", 1)
	h := hMkHeap(0, maxN, 3)
	h.check("the pre-state matches its model (harness self-check)")
	op := nondetIntRange(0, hNumListOps-1)
	h.apply(0, op)
	h.check("after one operation every live list shows what the sequence model predicts")
	verifReach("end")
}

// two dependent steps: an arbitrary operation, then an arbitrary mutator on any live list
// (receiver, argument or result) — every live list must still match the model.
func H_C05_step2() {
	verifBound("OPS", 2)
	h := hMkHeap(1, 2, 2)
	op := []int{opAdd1, opInsert, opReplace, opDelete1, opPop, opClear, opReverse, opSubList, opConcat, opNewListOf}[nondetIntRange(0, 9)]
	h.apply(0, op)
	h.check("after one operation every live list shows what the sequence model predicts")
	t := nondetIntRange(0, len(h.lists)-1)
	op2 := hMutatorOps[nondetIntRange(0, len(hMutatorOps)-1)]
	if op2 == opAdd1 && nondetIntRange(0, 1) == 1 {
		op2 = opConcat
	}
	h.apply(t, op2)
	h.check("after two operations every live list shows what the sequence model predicts")
	verifReach("end")
}

// three dependent steps around Sort: an operation that may leave hidden state behind (Sort, Reverse, Clear),
// then an arbitrary mutator, then every observer — compared with the sequence model
func H_C05_three_steps_after_sort() {
	verifBound("OPS_AFTER_SORT", 3)
	n := nondetIntRange(2, 3)
	l := NewList()
	m := make([]mval, 0, n)
	for i := 0; i < n; i++ {
		v := nondetInt()
		l.Add(v)
		m = append(m, mval{kind: TypeInt, i: v})
	}
	// step 1
	switch nondetIntRange(0, 1) {
	case 0:
		l.Sort()
		for i := 0; i < len(m); i++ { // model: sort the ints
			for j := i + 1; j < len(m); j++ {
				if m[j].i < m[i].i {
					m[i], m[j] = m[j], m[i]
				}
			}
		}
	default:
		l.Sort().Reverse()
		for i := 0; i < len(m); i++ {
			for j := i + 1; j < len(m); j++ {
				if m[j].i > m[i].i {
					m[i], m[j] = m[j], m[i]
				}
			}
		}
	}
	// step 2: a mutator with symbolic arguments
	v := nondetInt()
	mv := mval{kind: TypeInt, i: v}
	switch nondetIntRange(0, 5) {
	case 0:
		idx := nondetIntRange(0, len(m))
		l.Insert(idx, v)
		m = mInsert(m, idx, mv)
	case 1:
		l.Add(v)
		m = append(mCopy(m), mv)
	case 2:
		idx := nondetIntRange(0, len(m)-1)
		l.Replace(idx, v)
		m = mCopy(m)
		m[idx] = mv
	case 3:
		idx := nondetIntRange(0, len(m)-1)
		l.Delete(idx)
		m = mDelete(m, idx)
	case 4:
		l.SetTF("#0", v)
		m = mCopy(m)
		m[0] = mv
	default:
		l.Pop()
		m = mCopy(m[:len(m)-1])
	}
	// step 3: observers
	verifAssert(hSameSlots(mval{elem: m}, hSnapList(l, false)), "after three dependent steps the list shows what the sequence model predicts")
	q := nondetInt()
	first := -1
	for i := len(m) - 1; i >= 0; i-- {
		first = verifIteInt(m[i].i == q, i, first)
	}
	verifAssert(l.Contains(q) == (first >= 0), "Contains iff some element is the same value / identical container")
	verifAssert(l.IndexOf(q) == first, "IndexOf is the first position holding the value, or -1")
	verifAssert(l.Count() == len(m) && l.Empty() == (len(m) == 0), "Count / Empty describe the list")
	verifReach("end")
}

// Contains / IndexOf over every scalar kind (bools, nil, floats and strings next to ints): the first position
// holding a value of the same kind and the same value, or -1
func H_C05_lookup_every_scalar_kind() {
	n := nondetIntRange(0, 3)
	l := NewList()
	m := make([]mval, 0, n)
	pick := func() (any, mval) {
		switch nondetIntRange(0, 4) {
		case 0:
			b := nondetBool()
			return b, mval{kind: TypeBool, b: b}
		case 1:
			return nil, mval{kind: TypeNil}
		case 2:
			f := hFiniteFloat()
			verifAssume(f != 0) // whether +0 and -0 are "the same value" for a lookup is not settled by the property
			return f, mval{kind: TypeFloat, f: f}
		case 3:
			s := hBytesStr(1)
			return s, mval{kind: TypeString, s: s}
		default:
			v := nondetInt()
			return v, mval{kind: TypeInt, i: v}
		}
	}
	for i := 0; i < n; i++ {
		v, mv := pick()
		l.Add(v)
		m = append(m, mv)
	}
	q, qm := pick()
	first := -1
	for i := n - 1; i >= 0; i-- {
		same := false
		if m[i].kind == qm.kind {
			switch qm.kind {
			case TypeBool:
				same = m[i].b == qm.b
			case TypeNil:
				same = true
			case TypeFloat:
				same = m[i].f == qm.f
			case TypeString:
				same = m[i].s == qm.s
			default:
				same = m[i].i == qm.i
			}
		}
		first = verifIteInt(same, i, first)
	}
	verifAssert(l.IndexOf(q) == first, "IndexOf is the first position holding the value, or -1")
	verifAssert(l.Contains(q) == (first >= 0), "Contains iff some element is the same value / identical container")
	verifReach("end")
}

// A longer list holding every kind (nil, bool, float and both container kinds included): Delete with one to
// three distinct indices in any order, Slice, and a second Delete — against the sequence model.
func H_C05_every_kind_and_multi_delete() {
	verifBound("LISTN", 6)
	inner, obj := NewList(1), NewObject("k", 1)
	x, f, s, b := nondetInt(), hFiniteFloat(), hBytesStr(1), nondetBool()
	l := NewList(x, nil, s, f, inner, nil, b, obj)
	m := []mval{{kind: TypeInt, i: x}, {kind: TypeNil}, {kind: TypeString, s: s}, {kind: TypeFloat, f: f},
		{kind: TypeList, ref: inner}, {kind: TypeNil}, {kind: TypeBool, b: b}, {kind: TypeObject, ref: obj}}
	// drop a prefix so that lengths 5..8 and different leading kinds are covered
	for d := nondetIntRange(0, 3); d > 0; d-- {
		l.Delete(0)
		m = mDelete(m, 0)
	}
	n := len(m)
	// the variadic mutators with no argument at all (also from an empty slice) change nothing
	var none []int
	r0, r1, r2 := l.Delete(), l.Delete(none...), l.Add()
	verifAssert(r0 == l && r1 == l && r2 == l, "Delete returns the list")
	verifAssert(hSameSlots(mval{elem: m}, hSnapList(l, false)), "Delete and Add without arguments leave the list as it was")
	sl := l.Slice()
	ok := len(sl) == n
	for i := 0; i < n && i < len(sl); i++ {
		ok = verifAnd(ok, hSameShallow(hSnapValue(m[i].kind, sl[i], false), m[i]))
	}
	verifAssert(ok, "Slice lists the elements in order")
	k := nondetIntRange(1, 3)
	idx := make([]int, k)
	for q := range idx {
		idx[q] = nondetIntRange(0, n-1)
		for r := 0; r < q; r++ {
			verifAssume(idx[r] != idx[q])
		}
	}
	ret := l.Delete(idx...)
	verifAssert(ret == l, "Delete returns the list")
	// model: remove the chosen positions, highest first
	gone := make([]bool, n)
	for _, i := range idx {
		gone[i] = true
	}
	var nm []mval
	for i := 0; i < n; i++ {
		if !gone[i] {
			nm = append(nm, m[i])
		}
	}
	verifAssert(hSameSlots(mval{elem: nm}, hSnapList(l, false)), "Delete of several distinct valid indices removes exactly those positions")
	// a second step on the result
	if len(nm) > 0 {
		j := nondetIntRange(0, len(nm)-1)
		l.Delete(j)
		nm = mDelete(nm, j)
		verifAssert(hSameSlots(mval{elem: nm}, hSnapList(l, false)), "after two operations every live list shows what the sequence model predicts")
	}
	verifReach("end")
}
