package anytype

// Engine self-tests (run with `bin/gosmt check SELF`; not a property check): harnesses whose only purpose
// is translator validation — the observed values are computed symbolically, then the solver's model of each
// explored path is replayed natively and every observation must agree byte for byte.

import (
	"errors"
	"fmt"
	"math"
	"reflect"
	"sort"
	"strconv"
	"strings"
)

func H_SELF_fmt() {
	r := hValidRune()
	n := nondetInt()
	verifAssume(verifAnd(n > -100000, n < 100000))
	s := hAscii(2)
	verifObserve("u", fmt.Sprintf(`\u%04x`, r))
	verifObserve("X", fmt.Sprintf("%X|%x|%6x|%-6x|", r, r, r, r))
	verifObserve("c", fmt.Sprintf("<%c>", r))
	verifObserve("d", fmt.Sprintf("%d|%5d|%-7d|%07d|%v", n, n, n, n, n))
	verifObserve("s", fmt.Sprintf("%s|%5s|%-4s|%%", s, s, s))
	var sb strings.Builder
	fmt.Fprintf(&sb, "[%03d:%s]", n, s)
	verifObserve("F", sb.String())
	verifReach("end")
}

func H_SELF_math() {
	a, b := hNonNaNFloat(), hNonNaNFloat()
	verifObserve("max", math.Max(a, b), math.Min(a, b))
	f := hFiniteFloat()
	verifObserve("floor", math.Floor(f), math.Ceil(f), math.Trunc(f), math.Abs(f))
	verifReach("end")
}

func H_SELF_sort_slice() {
	n := []int{0, 1, 2, 5, 12, 13, 14, 20}[nondetIntRange(0, 7)]
	xs := make([]int, n)
	for i := range xs {
		xs[i] = ((i*7+3)%4)*100 + i // concrete keys 0..3 (duplicates: stability is visible), unique payload
	}
	if n >= 2 {
		// two symbolic keys somewhere
		v, w := nondetInt(), nondetInt()
		verifAssume(verifAnd(v >= 0, v < 4))
		verifAssume(verifAnd(w >= 0, w < 4))
		xs[0] = v*100 + 0
		xs[n/2] = w*100 + n/2
	}
	ys := append([]int{}, xs...)
	sort.Slice(xs, func(i, j int) bool { return xs[i]/100 < xs[j]/100 })
	sort.SliceStable(ys, func(i, j int) bool { return ys[i]/100 < ys[j]/100 })
	for i := range xs {
		verifObserve("x", xs[i])
		verifObserve("y", ys[i])
	}
	verifReach("end")
}

func H_SELF_errors() {
	s := hAscii(nondetIntRange(1, 3))
	_, err := strconv.ParseInt(s, 10, 64)
	verifObserve("nil", err == nil)
	verifObserve("range", errors.Is(err, strconv.ErrRange), errors.Is(err, strconv.ErrSyntax))
	verifReach("end")
}

func H_SELF_fmt_symbolic_format() {
	k := hAscii(nondetIntRange(1, 2))
	for i := 0; i < len(k); i++ {
		c := k[i] // flags, widths and precisions at data positions are outside the model
		verifAssume(verifAnd(verifOr(c < '0', c > '9'), verifAnd(verifAnd(c != '+', c != '-'), verifAnd(verifAnd(c != '#', c != ' '), verifAnd(verifAnd(c != '.', c != '*'), verifAnd(c != '[', c != 'q'))))))
	}
	v := hAscii(1)
	verifObserve("f", fmt.Sprintf("\""+k+"\":%s", v))
	verifReach("end")
}

type hSelfNamed uint16

func H_SELF_reflect() {
	var vals []any
	a, b, c := nondetInt8(), nondetUint32(), nondetFloat32()
	verifAssume(c == c)
	vals = append(vals, a, b, c, nondetBool(), hAscii(1), nil, []int(nil), []any{a}, map[string]any(nil), (*int)(nil), hSelfNamed(7), [2]int{1, 2}, struct{}{})
	for i, v := range vals {
		rv := reflect.ValueOf(v)
		verifObserve("kind", i, int(rv.Kind()), rv.IsValid())
		switch rv.Kind() {
		case reflect.Int8, reflect.Int, reflect.Int64:
			verifObserve("int", rv.Int())
		case reflect.Uint32, reflect.Uint16:
			verifObserve("uint", rv.Uint(), reflect.TypeOf(v).Name(), reflect.TypeOf(v).String())
		case reflect.Float32:
			verifObserve("float", rv.Float())
		case reflect.Bool:
			verifObserve("bool", rv.Bool())
		case reflect.String:
			verifObserve("string", rv.String(), rv.Len())
		case reflect.Slice, reflect.Map, reflect.Ptr:
			verifObserve("nil", rv.IsNil(), rv.Type().String())
			if rv.Kind() == reflect.Slice && rv.Len() > 0 {
				verifObserve("elem", rv.Index(0).Interface(), int(rv.Index(0).Kind()), int(rv.Index(0).Elem().Kind()))
			}
		}
	}
	verifReach("end")
}
