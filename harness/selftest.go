package anytype

// Engine self-tests (run with `bin/gosmt check SELF`; not a property check): harnesses whose only purpose
// is translator validation — the observed values are computed symbolically, then the solver's model of each
// explored path is replayed natively and every observation must agree byte for byte.

import (
	"bufio"
	"bytes"
	"errors"
	"fmt"
	"io"
	"math"
	"os"
	"reflect"
	"runtime"
	"sort"
	"strconv"
	"strings"
	"sync"
	"sync/atomic"
	"unicode"
	"unicode/utf8"
)

func H_SELF_fmt() {
	r := hValidRune()
	n := nondetInt()
	verifAssume(verifAnd(n >= 0, n < 50000)) // symbolic %d is rendered only for small non-negative ranges
	s := hAscii(2)
	verifObserve("u", fmt.Sprintf(`\u%04x`, r))
	verifObserve("X", fmt.Sprintf("%X|%x|%6x|%-6x|", r, r, r, r))
	verifObserve("c", fmt.Sprintf("<%c>", r))
	verifObserve("d", fmt.Sprintf("%d|%5d|%-7d|%07d|%v", n, n, n, n, n))
	verifObserve("s", fmt.Sprintf("%s|%5s|%-4s|%%", s, s, s))
	var sb strings.Builder
	fmt.Fprintf(&sb, "[%03d:%s]", n, s)
	verifObserve("F", sb.String())
	verifReach("end")
}

func H_SELF_math() {
	a, b := hNonNaNFloat(), hNonNaNFloat()
	verifObserve("max", math.Max(a, b), math.Min(a, b))
	f := hFiniteFloat()
	verifObserve("floor", math.Floor(f), math.Ceil(f), math.Trunc(f), math.Abs(f))
	verifReach("end")
}

func H_SELF_sort_slice() {
	n := []int{0, 1, 2, 5, 12, 13, 14, 20}[nondetIntRange(0, 7)]
	xs := make([]int, n)
	for i := range xs {
		xs[i] = ((i*7+3)%4)*100 + i // concrete keys 0..3 (duplicates: stability is visible), unique payload
	}
	if n >= 2 {
		// two symbolic keys somewhere
		v, w := nondetInt(), nondetInt()
		verifAssume(verifAnd(v >= 0, v < 4))
		verifAssume(verifAnd(w >= 0, w < 4))
		xs[0] = v*100 + 0
		xs[n/2] = w*100 + n/2
	}
	ys := append([]int{}, xs...)
	sort.Slice(xs, func(i, j int) bool { return xs[i]/100 < xs[j]/100 })
	sort.SliceStable(ys, func(i, j int) bool { return ys[i]/100 < ys[j]/100 })
	for i := range xs {
		verifObserve("x", xs[i])
		verifObserve("y", ys[i])
	}
	verifReach("end")
}

func H_SELF_errors() {
	s := hAscii(nondetIntRange(1, 3))
	_, err := strconv.ParseInt(s, 10, 64)
	verifObserve("nil", err == nil)
	verifObserve("range", errors.Is(err, strconv.ErrRange), errors.Is(err, strconv.ErrSyntax))
	verifReach("end")
}

func H_SELF_fmt_symbolic_format() {
	k := hAscii(nondetIntRange(1, 2))
	for i := 0; i < len(k); i++ {
		c := k[i] // flags, widths and precisions at data positions are outside the model
		verifAssume(verifAnd(verifOr(c < '0', c > '9'), verifAnd(verifAnd(c != '+', c != '-'), verifAnd(verifAnd(c != '#', c != ' '), verifAnd(verifAnd(c != '.', c != '*'), verifAnd(c != '[', c != 'q'))))))
	}
	v := hAscii(1)
	verifObserve("f", fmt.Sprintf("\""+k+"\":%s", v))
	verifReach("end")
}

type hSelfNamed uint16

func H_SELF_reflect() {
	var vals []any
	a, b, c := nondetInt8(), nondetUint32(), nondetFloat32()
	verifAssume(c == c)
	vals = append(vals, a, b, c, nondetBool(), hAscii(1), nil, []int(nil), []any{a}, map[string]any(nil), (*int)(nil), hSelfNamed(7), [2]int{1, 2}, struct{}{})
	for i, v := range vals {
		rv := reflect.ValueOf(v)
		verifObserve("kind", i, int(rv.Kind()), rv.IsValid())
		switch rv.Kind() {
		case reflect.Int8, reflect.Int, reflect.Int64:
			verifObserve("int", rv.Int())
		case reflect.Uint32, reflect.Uint16:
			verifObserve("uint", rv.Uint(), reflect.TypeOf(v).Name(), reflect.TypeOf(v).String())
		case reflect.Float32:
			verifObserve("float", rv.Float())
		case reflect.Bool:
			verifObserve("bool", rv.Bool())
		case reflect.String:
			verifObserve("string", rv.String(), rv.Len())
		case reflect.Slice, reflect.Map, reflect.Ptr:
			verifObserve("nil", rv.IsNil(), rv.Type().String())
			if rv.Kind() == reflect.Slice && rv.Len() > 0 {
				verifObserve("elem", rv.Index(0).Interface(), int(rv.Index(0).Kind()), int(rv.Index(0).Elem().Kind()))
			}
		}
	}
	verifReach("end")
}

// a sweep over standard-library helpers a refactoring may reach for, on short symbolic strings
func H_SELF_stdlib_strings() {
	s := hAscii(2)
	t := hAscii(1)
	c := t[0]
	switch nondetIntRange(0, 5) {
	case 0:
		verifObserve("idx", strings.Index(s, t), strings.IndexByte(s, c), strings.IndexAny(s, ".#"), strings.IndexRune(s, rune(c)), strings.LastIndex(s, t), strings.LastIndexByte(s, c))
		verifObserve("has", strings.Contains(s, t), strings.ContainsAny(s, ".eE"), strings.ContainsRune(s, 'e'), strings.HasPrefix(s, t), strings.HasSuffix(s, t), strings.Count(s, t), strings.Compare(s, t), strings.EqualFold(s, t))
	case 1:
		verifObserve("trim", strings.TrimSpace(" "+s+"\n"), strings.TrimLeft(s, ". "), strings.TrimRight(s, "# "), strings.Trim(s, "\""), strings.TrimPrefix(s, t), strings.TrimSuffix(s, t))
		verifObserve("trimf", strings.TrimLeftFunc(s, unicode.IsSpace), strings.TrimFunc(s, unicode.IsDigit), strings.IndexFunc(s, unicode.IsSpace))
	case 2:
		verifObserve("split", len(strings.Split(s, t)), len(strings.SplitN(s, t, 2)), len(strings.Fields(s+" "+t)), strings.Join([]string{s, t, s}, ","), strings.Repeat(t, 3))
		a, b, ok := strings.Cut(s, t)
		verifObserve("cut", a, b, ok)
	case 3:
		verifObserve("repl", strings.Replace(s, t, "xy", 1), strings.ReplaceAll(s, t, ""), strings.ToUpper(s), strings.ToLower(s), strings.Map(func(r rune) rune { return r + 1 }, s), strings.Title(s))
		var sb strings.Builder
		sb.Grow(8)
		sb.WriteString(s)
		sb.WriteByte(c)
		sb.WriteRune('é')
		verifObserve("sb", sb.String(), sb.Len())
	case 4:
		var bb bytes.Buffer
		bb.WriteString(s)
		bb.WriteByte(c)
		bb.Write([]byte(t))
		bb.WriteRune('ß')
		verifObserve("bb", bb.String(), bb.Len(), bytes.Equal([]byte(s), []byte(t)), bytes.IndexByte([]byte(s), c), bytes.Contains([]byte(s), []byte(t)), string(bytes.TrimSpace([]byte(" "+s))))
		verifObserve("utf8", utf8.RuneCountInString(s), utf8.ValidString(s), utf8.RuneLen(rune(c)), utf8.FullRuneInString(s))
		r, n := utf8.DecodeLastRuneInString(s)
		verifObserve("last", r, n, string(utf8.AppendRune(nil, rune(c)+200)))
	default:
		verifObserve("uni", unicode.IsSpace(rune(c)), unicode.IsDigit(rune(c)), unicode.IsLetter(rune(c)), unicode.IsUpper(rune(c)), unicode.IsControl(rune(c)), unicode.IsPrint(rune(c)), unicode.ToUpper(rune(c)), unicode.IsPunct(rune(c)))
	}
	verifReach("end")
}

func H_SELF_stdlib_numbers() {
	s := hAscii(2)
	n := nondetInt()
	verifAssume(verifAnd(n >= 0, n < 5000))
	switch nondetIntRange(0, 3) {
	case 0:
		a, err := strconv.Atoi(s)
		verifObserve("atoi", a, err == nil)
		u, err2 := strconv.ParseUint(s, 16, 16)
		verifObserve("pu", u, err2 == nil)
		b, err3 := strconv.ParseBool(s)
		verifObserve("pb", b, err3 == nil)
	case 1:
		verifObserve("fmt", strconv.Itoa(n), strconv.FormatInt(int64(n), 10), string(strconv.AppendInt([]byte("x"), int64(n), 10)), strconv.FormatBool(n > 0), string(strconv.AppendBool(nil, n > 3)))
		verifObserve("q", strconv.Quote(s), string(strconv.AppendQuote([]byte("k"), s)))
	case 2:
		xs := []int{n, 3, -n, 7}
		sort.Ints(xs)
		ss := []string{s, "m", "a" + s}
		sort.Strings(ss)
		verifObserve("sort", xs[0], xs[3], ss[0], ss[2], sort.SearchInts(xs, 3), sort.SearchStrings(ss, "m"), sort.IsSorted(sort.IntSlice(xs)))
		sort.Sort(sort.Reverse(sort.StringSlice(ss)))
		verifObserve("rev", ss[0], ss[2])
	default:
		e := errors.New("boom " + s)
		w := fmt.Errorf("ctx: %w", e)
		verifObserve("err", e.Error(), w.Error(), errors.Is(w, e), errors.Unwrap(w) == e, fmt.Sprint(s, n), fmt.Sprintln(n))
	}
	verifReach("end")
}

func H_SELF_channels() {
	ch := make(chan int, 2)
	un := make(chan string)
	done := make(chan struct{})
	sum := 0
	verifSchedAll(1)
	go func() {
		for v := range ch {
			sum += v
		}
		s := <-un
		sum += len(s)
		close(done)
	}()
	ch <- 1
	ch <- 2
	ch <- 3
	close(ch)
	un <- "four"
	<-done
	_, ok := <-ch
	verifObserve("sum", sum, ok, len(ch), cap(ch), runtime.GOMAXPROCS(0) >= 1)
	verifAssert(sum == 10, "channel model: producer/consumer")
	verifAssert(verifRaces() == 0, "channel operations order the accesses")
	verifReach("end")
}

func H_SELF_files_and_q() {
	s := hAscii(2)
	verifObserve("q", fmt.Sprintf("%q:%s", s, s))
	path := "/tmp/verif_self_file.txt"
	verifSetFile(path, "ab"+s, true)
	f, err := os.Open(path)
	verifObserve("open", err == nil)
	if err == nil {
		data, rerr := io.ReadAll(f)
		cerr := f.Close()
		verifObserve("read", string(data), rerr == nil, cerr == nil, f.Close() == nil)
	}
	_, err2 := os.Open("/tmp/verif_self_missing.txt")
	verifObserve("missing", err2 == nil)
	// bufio over a file: real bufio code on top of the modelled (*os.File).Read
	verifSetFile(path, "x\n"+s+"\nlast", true)
	if g, gerr := os.Open(path); gerr == nil {
		rd := bufio.NewReaderSize(g, 16)
		l1, p1, e1 := rd.ReadLine()
		l2, e2 := rd.ReadString('\n')
		rest, e3 := io.ReadAll(rd)
		_, e4 := rd.ReadByte()
		verifObserve("bufio", string(l1), p1, e1 == nil, l2, e2 == nil, string(rest), e3 == nil, e4 == io.EOF)
		g.Close()
	}
	// Stat + io.CopyN: a regular file whose size is the length of its content
	if g, gerr := os.Open(path); gerr == nil {
		fi, serr := g.Stat()
		var sb strings.Builder
		var n int64
		var cerr error
		if serr == nil {
			sb.Grow(int(fi.Size()))
			n, cerr = io.CopyN(&sb, g, fi.Size())
		}
		fi2, serr2 := os.Stat(path)
		verifObserve("stat", serr == nil, n, cerr == nil, sb.String(), serr2 == nil && fi2.Size() == n && fi2.Name() == "verif_self_file.txt")
		g.Close()
	}
	verifReach("end")
}

func H_SELF_atomic() {
	var n int32
	var m atomic.Int64
	var wg sync.WaitGroup
	verifSchedAll(1)
	wg.Add(2)
	for i := 0; i < 2; i++ {
		go func() {
			atomic.AddInt32(&n, 2)
			m.Add(3)
			wg.Done()
		}()
	}
	wg.Wait()
	ok := atomic.CompareAndSwapInt32(&n, 4, 9)
	verifObserve("atomic", atomic.LoadInt32(&n), m.Load(), ok)
	verifAssert(verifRaces() == 0, "atomic operations do not race")
	verifReach("end")
}

var hSelfCounter int

// package-level state of the package under test starts fresh on every explored path; sync.Map and
// atomic.Pointer run as their real code (unsafe.Pointer round trips to the same pointer type only)
func H_SELF_syncmap_and_globals() {
	verifAssert(hSelfCounter == 0, "package-level variables start from their initial value on every path")
	hSelfCounter += 1 + nondetIntRange(0, 2)
	var m sync.Map
	k := hBytesStr(1)
	_, had := m.Load(k)
	m.Store(k, 1)
	m.Store("zz", 2)
	v, ok := m.Load(k)
	act, loaded := m.LoadOrStore("zz", 3)
	m.Delete(k)
	_, ok2 := m.Load(k)
	var p atomic.Pointer[int]
	y := 5
	old := p.Swap(&y)
	verifObserve("syncmap", had, v, ok, act, loaded, ok2, old == nil, *p.Load())
	verifReach("end")
}

func hSelfFirstLast(xs ...int) (int, int) { return xs[0], xs[len(xs)-1] }

// indexing an empty / nil slice panics (variadic call without arguments included)
func H_SELF_index_empty_slice() {
	var s []int
	p1 := verifCatch(func() { _ = s[0] })
	p2 := verifCatch(func() { hSelfFirstLast() })
	e := []int{}
	p3 := verifCatch(func() { _ = e[len(e)-1] })
	p4 := verifCatch(func() { sort.Ints(s); _ = s[0] })
	verifObserve("idx", p1, p2, p3, p4)
	verifAssert(p1 && p2 && p3 && p4, "indexing an empty slice panics")
	verifReach("end")
}
