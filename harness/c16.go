package anytype

// C16 — FormatString is a lossless, canonically indented re-layout of String.

func hFormatAny(c any, n int) (out string, panicked bool) {
	panicked = verifCatch(func() {
		switch x := c.(type) {
		case List:
			out = x.FormatString(n)
		case Object:
			out = x.FormatString(n)
		}
	})
	return
}

// refIndent: the canonical layout of a compact JSON text: one element per line, n spaces per level,
// "key": value, empty containers on one line.
func refIndent(src string, n int) string {
	out := ""
	level := 0
	inStr := false
	esc := false
	nl := func(l int) {
		out += "\n"
		for i := 0; i < l*n; i++ {
			out += " "
		}
	}
	for i := 0; i < len(src); i++ {
		c := src[i]
		if inStr {
			out += string([]byte{c})
			if esc {
				esc = false
			} else if c == '\\' {
				esc = true
			} else if c == '"' {
				inStr = false
			}
			continue
		}
		switch c {
		case '"':
			inStr = true
			out += "\""
		case '[', '{':
			out += string([]byte{c})
			if i+1 < len(src) && (src[i+1] == ']' || src[i+1] == '}') {
				out += string([]byte{src[i+1]})
				i++
				continue
			}
			level++
			nl(level)
		case ']', '}':
			level--
			nl(level)
			out += string([]byte{c})
		case ',':
			out += ","
			nl(level)
		case ':':
			out += ": "
		default:
			out += string([]byte{c})
		}
	}
	return out
}

// refCompact removes the insignificant whitespace of a JSON text (everything outside string literals).
func refCompact(src string) string {
	out := ""
	inStr, esc := false, false
	for i := 0; i < len(src); i++ {
		c := src[i]
		if inStr {
			out += string([]byte{c})
			if esc {
				esc = false
			} else if c == '\\' {
				esc = true
			} else if c == '"' {
				inStr = false
			}
			continue
		}
		if c == ' ' || c == '\n' || c == '\t' || c == '\r' {
			continue
		}
		if c == '"' {
			inStr = true
		}
		out += string([]byte{c})
	}
	return out
}

// hCanonical: re-indenting the text canonically reproduces it byte for byte. (The text is compared with the
// canonical layout of itself, not of a separate String() call: two serialisations of one object may list
// the fields in different orders.)
func hCanonical(out string, n int) bool { return out == refIndent(refCompact(out), n) }

func H_C16_range() {
	n := nondetInt()
	var c any
	if nondetIntRange(0, 1) == 0 {
		c = NewList(1, "a", NewObject("k", nil))
	} else {
		c = NewObject("a", NewList(1.5, true))
	}
	before := hSnapAny(c)
	verifAssume(verifOr(n < 3, n > 8)) // the interesting region: both boundaries and everything outside
	_, p := hFormatAny(c, n)
	verifAssert(p == verifOr(n < 0, n > 10), "FormatString panics exactly when the indent is outside 0..10")
	verifAssert(hExact(before, hSnapAny(c)), "FormatString does not modify the container")
	verifReach("end")
}

func hCheckLayout(c any, n int) {
	before := hSnapAny(c)
	compact := hStringAny(c)
	out, p := hFormatAny(c, n)
	verifAssert(!p, "FormatString with an indent in 0..10 does not panic")
	verifAssert(len(out) > 0, "FormatString is non-empty")
	got, ok := refParse(out)
	verifAssert(ok, "FormatString is a valid JSON text")
	want, wok := refParse(compact)
	if ok && wok {
		verifAssert(hExact(want, got), "FormatString denotes exactly the same data as String")
	}
	verifAssert(hCanonical(out, n), "FormatString is the canonical layout: one element per line, n spaces per level, empty containers on one line")
	verifAssert(hExact(before, hSnapAny(c)), "FormatString does not modify the container")
}

// layout of structures for every indent
func H_C16_layout() {
	verifBound("INDENTS", 11)
	n := nondetIntRange(0, 10)
	x := nondetInt()
	verifAssume(verifAnd(x >= 0, x < 10))
	var c any
	switch nondetIntRange(0, 5) {
	case 0:
		c = NewList()
	case 1:
		c = NewObject()
	case 2:
		c = NewList(x, NewList(), NewObject(), NewList(NewList(x), NewObject("k", NewList(true, nil))))
	case 3:
		c = NewObject("a", NewObject("b", NewList(x, "s")), "c", x)
	case 4:
		c = NewList("a,b:[c]{d}", NewObject("k:,", "[\"]"))
	default:
		c = NewList(x)
	}
	hCheckLayout(c, n)
	verifReach("end")
}

// any string content: one arbitrary Unicode scalar value as value and as key
func H_C16_strings() {
	verifBound("STRRUNES", 1)
	s := string(hValidRune())
	n := []int{0, 2, 10}[nondetIntRange(0, 2)]
	if nondetIntRange(0, 1) == 0 {
		hCheckLayout(NewList(s, 1), n)
	} else {
		hCheckLayout(NewObject(s, NewList(s)), n)
	}
	verifReach("end")
}

// numbers: ints and finite floats (token spelling itself is C02's subject)
func H_C16_numbers() {
	verifBound("FLTINT", 2)
	verifBound("FLTFRAC", 1)
	verifBound("INTDIG", 3)
	n := []int{0, 3}[nondetIntRange(0, 1)]
	if nondetIntRange(0, 1) == 0 {
		x := nondetInt()
		verifAssume(verifAnd(x > -1000, x < 1000))
		hCheckLayout(NewList(x, 2), n)
	} else {
		hCheckLayout(NewList(hFiniteFloat()), n)
	}
	verifReach("end")
}

// FormatString inside a history: the same container is formatted with one indent, then (optionally after
// a mutation) with another — each answer is the canonical layout of the *current* String() for the
// indent of *that* call.
func H_C16_repeated_calls() {
	verifBound("INDENT_PAIRS", 121)
	n1 := nondetIntRange(0, 10)
	n2 := nondetIntRange(0, 10)
	x := nondetInt()
	verifAssume(verifAnd(x >= 0, x < 10))
	var c any
	isList := nondetIntRange(0, 1) == 0
	if isList {
		c = NewList(x, NewList(true), "s")
	} else {
		c = NewObject("a", NewList(x, nil))
	}
	out1, p1 := hFormatAny(c, n1)
	verifAssert(!p1 && hCanonical(out1, n1), "FormatString is the canonical layout: one element per line, n spaces per level, empty containers on one line")
	if nondetIntRange(0, 1) == 1 {
		if isList {
			c.(List).Add(x)
		} else {
			c.(Object).Set("b", x)
		}
	}
	out2, p2 := hFormatAny(c, n2)
	got2, ok2 := refParse(out2)
	verifAssert(!p2 && hCanonical(out2, n2) && ok2 && hExact(hSnapAny(c), got2), "a later FormatString is the canonical layout of the current content for the indent of that call")
	verifReach("end")
}

// acyclic trees in which the same container instance is reachable twice
func H_C16_shared_child() {
	n := []int{0, 3}[nondetIntRange(0, 1)]
	hCheckLayout(hDiamond(), n)
	verifReach("end")
}

// Derived containers that override Count (a table that counts its header line, a record that counts its
// name): the text is laid out from what the container holds, whatever the override reports.
type hCountingList struct {
	List
}

func (ego *hCountingList) Count() int { return ego.List.Count() + 1 }

type hCountingObject struct {
	Object
}

func (ego *hCountingObject) Count() int { return ego.Object.Count() + 1 }

func H_C16_derived_overriding_count() {
	n := []int{0, 2, 10}[nondetIntRange(0, 2)]
	x := nondetInt()
	verifAssume(verifAnd(x >= 0, x < 10))
	var d, twin any
	switch nondetIntRange(0, 3) {
	case 0:
		dl := &hCountingList{List: NewList(x, "s")}
		dl.Init(dl)
		d, twin = dl, NewList(x, "s")
	case 1:
		dl := &hCountingList{List: NewList()}
		dl.Init(dl)
		d, twin = dl, NewList()
	case 2:
		do := &hCountingObject{Object: NewObject("a", x)}
		do.Init(do)
		d, twin = do, NewObject("a", x)
	default:
		dl := &hCountingList{List: NewList(x)}
		dl.Init(dl)
		d, twin = NewList(dl, 1), NewList(NewList(x), 1)
	}
	out, p := hFormatAny(d, n)
	verifAssert(!p, "FormatString with an indent in 0..10 does not panic")
	verifAssert(len(out) > 0, "FormatString is non-empty")
	got, ok := refParse(out)
	verifAssert(ok, "FormatString is a valid JSON text")
	want, wok := refParse(hStringAny(twin))
	if ok && wok {
		verifAssert(hExact(want, got), "FormatString denotes exactly the same data as String")
	}
	verifAssert(hCanonical(out, n), "FormatString is the canonical layout: one element per line, n spaces per level, empty containers on one line")
	verifReach("end")
}
