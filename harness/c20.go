package anytype

// C20 — parse errors cite the line on which the error was detected.

// one symbolic whitespace byte out of {space, tab, LF, CR}
func hWS() string {
	c := nondetByte()
	verifAssume(verifOr(verifOr(c == ' ', c == '\t'), verifOr(c == '\n', c == '\r')))
	return string([]byte{c})
}

// 0..1 symbolic whitespace bytes
func hWS01() string {
	if nondetIntRange(0, 1) == 0 {
		return ""
	}
	return hWS()
}

// hErrLine extracts the number after "line " at the end of the message (-1 if none).
func hErrLine(err error) int {
	if err == nil {
		return -1
	}
	m := err.Error()
	i := len(m)
	for i > 0 && m[i-1] >= '0' && m[i-1] <= '9' {
		i--
	}
	if i == len(m) || i < 5 || m[i-5:i] != "line " {
		return -1
	}
	n := 0
	for j := i; j < len(m); j++ {
		n = n*10 + int(m[j]-'0')
	}
	return n
}

func hLineOf(doc string, off int) int {
	n := 1
	for j := 0; j < off; j++ {
		n += verifIteInt(doc[j] == '\n', 1, 0)
	}
	return n
}

// an invalid literal: 1..2 symbolic lower-case letters that are no JSON literal / number / bool word
func hBadLiteral() string {
	a := nondetByte()
	verifAssume(verifAnd(a >= 'g', a <= 'm')) // g..m: cannot start true/false/null/nan/inf(i is excluded below)/digits/hex
	verifAssume(a != 'i')
	if nondetIntRange(0, 1) == 0 {
		return string([]byte{a})
	}
	// second byte: any printable ASCII character that is not structural ('%' and the like included: the
	// literal is quoted in the message)
	b := nondetByte()
	verifAssume(verifAnd(b > ' ', b < 0x7f))
	verifAssume(verifAnd(verifAnd(b != ',', b != ']'), verifAnd(b != '}', b != '[')))
	verifAssume(verifAnd(verifAnd(b != '{', b != '"'), verifAnd(b != ':', b != '\\')))
	return string([]byte{a, b})
}

type hDoc struct {
	s string
}

func (d *hDoc) add(parts ...string) {
	for _, p := range parts {
		d.s += p
	}
}

func hCheckLine(isList bool, doc string, off int, what string) {
	c, err, p := hParseAny(isList, doc)
	verifAssert(!p && c == nil && err != nil, "a document with an injected syntax error is rejected")
	got := hErrLine(err)
	verifAssert(got >= 1, "the syntax error message cites a line")
	verifAssert(got == hLineOf(doc, off), what)
}

// invalid literal terminated by ',' or the closing bracket at nesting depth 0..2, newlines anywhere before
func H_C20_invalid_literal() {
	verifBound("WS_SLOTS", 5)
	var d hDoc
	isList := nondetIntRange(0, 1) == 1
	bad := hBadLiteral()
	depth := nondetIntRange(0, 2)
	if isList {
		d.add("[", hWS(), "1", ",", hWS())
	} else {
		d.add("{", hWS(), `"a"`, ":", "1", ",", `"b"`, ":", hWS())
	}
	closers := ""
	for l := 0; l < depth; l++ {
		if nondetIntRange(0, 1) == 0 {
			d.add("[", hWS())
			closers = "]" + closers
		} else {
			d.add("{", `"k"`, ":", hWS())
			closers = "}" + closers
		}
	}
	d.add(bad, hWS())
	term := ","
	if nondetIntRange(0, 1) == 1 {
		if len(closers) > 0 {
			term = closers[:1]
		} else if isList {
			term = "]"
		} else {
			term = "}"
		}
	}
	off := len(d.s)
	d.add(term, "\n", hWS(), "\n") // newlines after the error must not count
	hCheckLine(isList, d.s, off, "an invalid literal is reported on the line of the delimiter that ends it")
	verifReach("end")
}

// arbitrary text (with newlines) before the root bracket counts towards the line
func H_C20_preamble() {
	verifBound("PREAMBLE_BYTES", 2)
	var d hDoc
	isList := nondetIntRange(0, 1) == 1
	pre := hBytesStr(nondetIntRange(0, 2))
	for i := 0; i < len(pre); i++ {
		verifAssume(verifAnd(pre[i] != '[', pre[i] != '{'))
	}
	d.add(pre)
	if isList {
		d.add("[", hWS())
	} else {
		d.add("{", `"a"`, ":", hWS())
	}
	d.add(hBadLiteral(), hWS())
	off := len(d.s)
	d.add(",", "1")
	hCheckLine(isList, d.s, off, "the line is counted from the start of the whole input, text before the root bracket included")
	verifReach("end")
}

// unexpected characters in objects: where a key must start, where ':' must follow, after a nested value
func H_C20_unexpected_char() {
	var d hDoc
	isList := nondetIntRange(0, 1) == 1
	if isList {
		d.add(hWS(), "[", "0", ",", hWS())
	}
	x := nondetByte() // the offending character: a printable ASCII symbol that no rule accepts here
	verifAssume(verifAnd(x >= 'A', x <= 'Z'))
	var off int
	switch nondetIntRange(0, 3) {
	case 0:
		d.add("{", hWS(), hWS())
		off = len(d.s)
		d.add(string([]byte{x}))
	case 1:
		d.add("{", hWS(), `"k"`, hWS())
		off = len(d.s)
		d.add(string([]byte{x}))
	case 2:
		d.add("{", `"k"`, ":", hWS(), "[", hWS(), "]", hWS())
		off = len(d.s)
		d.add(string([]byte{x}))
	default:
		d.add("{", `"k"`, ":", hWS(), "{", hWS(), `"q"`, ":", "1", "}", hWS(), ",", hWS())
		off = len(d.s)
		d.add(string([]byte{x}))
	}
	d.add("\n", hWS(), "}")
	hCheckLine(isList, d.s, off, "an unexpected character is reported on its own line")
	verifReach("end")
}

// the same through ParseFile
func H_C20_parsefile() {
	var d hDoc
	d.add(hWS(), "{", hWS(), `"a"`, ":", hWS(), "[", hWS(), hBadLiteral(), hWS())
	off := len(d.s)
	d.add("]", "}")
	path := "/tmp/verif_c20_parsefile.json"
	verifSetFile(path, d.s, true)
	o, err := ParseFile(path)
	verifAssert(o == nil && err != nil, "a file with an injected syntax error is rejected")
	verifAssert(hErrLine(err) == hLineOf(d.s, off), "ParseFile cites the line counted from the start of the file")
	verifReach("end")
}

// newline characters inside string literals and keys (raw, or directly after a backslash) that precede the
// error are newline characters of the input like any other: they count
func hStrBody() string {
	switch nondetIntRange(0, 4) {
	case 4:
		// one arbitrary code point (no quote, backslash or control character): only the byte 0x0A is a newline
		r := hValidRune()
		verifAssume(verifAnd(r >= 0x20, verifAnd(r != '"', r != '\\')))
		return string(r)
	case 0:
		return "x"
	case 1:
		return "\n"
	case 2:
		c := nondetByte() // the character after a backslash: a raw line break, or an ordinary escape letter
		verifAssume(verifOr(c == '\n', verifOr(c == 'n', c == '\\')))
		return "\\" + string([]byte{c})
	default:
		return "a\n\nb"
	}
}

func H_C20_newlines_in_strings() {
	var d hDoc
	isList := nondetIntRange(0, 1) == 1
	var bodies [][2]int // [start, end) of each string body in the document
	str := func() {
		d.add(`"`)
		st := len(d.s)
		d.add(hStrBody())
		// optionally, later in the same literal: an escape sequence, or a raw line break
		switch nondetIntRange(0, 2) {
		case 1:
			d.add("\\n")
		case 2:
			d.add("\n")
		}
		bodies = append(bodies, [2]int{st, len(d.s)})
		d.add(`"`)
	}
	// optional whitespace (possibly a line break) directly behind the closing quote of a string
	if isList {
		d.add("[")
		str()
		d.add(hWS01(), ",", hWS())
		if nondetIntRange(0, 1) == 1 {
			d.add("{")
			str()
			d.add(":", "1", "}", ",")
		}
	} else {
		d.add("{")
		str()
		d.add(":")
		str()
		d.add(hWS01(), ",", hWS(), `"z"`, ":")
	}
	d.add(hBadLiteral())
	off := len(d.s)
	d.add(",", "\n", "1")
	c, err, p := hParseAny(isList, d.s)
	verifAssert(!p && c == nil && err != nil, "a document with an injected syntax error is rejected")
	got := hErrLine(err)
	if got >= 1 {
		// the error is detected at the delimiter that ends the invalid literal — or, for a parser that is strict
		// about raw line breaks inside string literals, already at such a line break; either way the cited
		// line is one plus the number of newline characters before the detecting character
		ok := got == hLineOf(d.s, off)
		for _, b := range bodies {
			for q := b[0]; q < b[1]; q++ {
				ok = verifOr(ok, verifAnd(d.s[q] == '\n', got == hLineOf(d.s, q)))
			}
		}
		verifAssert(ok, "newline characters inside string literals before the error count towards the cited line")
	}
	verifReach("end")
}

// The line is a fact about *this* call: an earlier call — accepted or rejected — over a document that
// contains the same literal, key or error elsewhere must not influence it.
func H_C20_after_earlier_calls() {
	verifBound("EARLIER_CALLS", 2)
	bad := hBadLiteral()
	isList := nondetIntRange(0, 1) == 1
	// earlier calls: the same bad literal on another line, and an accepted document
	var e hDoc
	if nondetIntRange(0, 1) == 1 {
		e.add("[", hWS(), hWS(), bad, ",", "1", "]")
		hParseAny(true, e.s)
	} else {
		e.add("{", hWS(), `"a"`, ":", hWS(), bad, "}")
		hParseAny(false, e.s)
	}
	hParseAny(true, "[1,\n\"a\"]")
	hParseAny(false, "{\"a\":\n1}")
	var d hDoc
	if isList {
		d.add("[", hWS(), "1", ",", hWS(), hWS(), bad, hWS())
	} else {
		d.add("{", hWS(), `"a"`, ":", hWS(), hWS(), bad, hWS())
	}
	off := len(d.s)
	d.add(",", "\n")
	hCheckLine(isList, d.s, off, "an invalid literal is reported on the line of the delimiter that ends it, whatever earlier calls have seen")
	// and the same document again gives the same answer
	hCheckLine(isList, d.s, off, "parsing the same malformed document twice cites the same line")
	verifReach("end")
}

// the error comes after earlier, COMPLETED nested containers that had whitespace (line breaks included) inside them:
// every way of closing a container must hand the lines it consumed back to the enclosing one
func H_C20_after_closed_containers() {
	verifBound("WS_SLOTS_CLOSED", 4)
	var d hDoc
	isList := nondetIntRange(0, 1) == 1
	if isList {
		d.add("[")
	} else {
		d.add("{", `"a"`, ":")
	}
	switch nondetIntRange(0, 5) {
	case 0:
		d.add("{", hWS(), "}")
	case 1:
		d.add("[", hWS(), "]")
	case 2:
		d.add("[", "{", hWS(), "}", "]")
	case 3:
		d.add("{", `"k"`, ":", "{", hWS(), "}", "}")
	case 4:
		d.add("{", `"k"`, ":", "[", hWS(), "]", "}")
	default:
		d.add("[", "[", hWS(), "]", ",", "{", "\n", "}", "]")
	}
	d.add(hWS(), ",")
	if !isList {
		d.add(`"b"`, ":")
	}
	d.add(hWS(), hBadLiteral(), hWS())
	off := len(d.s)
	d.add(",", "\n", "1")
	hCheckLine(isList, d.s, off, "line breaks inside earlier, completed nested containers count towards the cited line")
	verifReach("end")
}
