package anytype

import "unicode/utf8"

// C04 — parsing is total and exclusive; truncated and ill-encoded documents are rejected.

func hParseAny(isList bool, s string) (c any, err error, panicked bool) {
	panicked = verifCatch(func() {
		if isList {
			l, e := ParseList(s)
			err = e
			if l != nil {
				c = l
			}
		} else {
			o, e := ParseObject(s)
			err = e
			if o != nil {
				c = o
			}
		}
	})
	return
}

// fully symbolic bytes after the root bracket: no panic, exactly one of (container, error),
// same outcome when parsed again, and nothing ill-formed was consumed on success.
func H_C04_total() {
	n := 3
	if verifTier() > 0 {
		n = 4
	}
	verifBound("DOCBYTES", n)
	isList := nondetIntRange(0, 1) == 1
	pre := hBytesStr(nondetIntRange(0, 1))
	body := hBytesStr(nondetIntRange(0, n))
	br := "{"
	if isList {
		br = "["
	}
	s := pre + br + body
	c, err, p := hParseAny(isList, s)
	verifAssert(!p, "parsing never panics")
	verifAssert((c == nil) != (err == nil), "parsing returns either a container with a nil error or no container with an error")
	c2, err2, p2 := hParseAny(isList, s)
	verifAssert(!p2 && (c2 == nil) == (c == nil) && (err2 == nil) == (err == nil), "the same input gives the same outcome")
	if c != nil && c2 != nil {
		// exact comparison (float bit patterns), because the parser also reads the words nan / inf
		verifAssert(hExact(hSnapAny(c), hSnapAny(c2)), "the same input gives the same container")
		// what was consumed between the root brackets is well-formed UTF-8. The end of the root container is
		// found through the public API alone: it is the shortest prefix that is accepted.
		start := len(pre)
		if len(pre) == 1 && pre[0] == br[0] {
			start = 0
		}
		end := len(s)
		for k := start + 1; k < len(s); k++ {
			pc, perr, pp := hParseAny(isList, s[:k])
			if !pp && pc != nil && perr == nil {
				end = k
				break
			}
		}
		verifAssert(utf8.ValidString(s[start:end]), "an accepted document has no ill-formed UTF-8 between its root brackets")
	}
	verifReach("end")
}

// every proper prefix of a serialised document is rejected
func H_C04_prefixes() {
	verifBound("DEPTH", 1)
	verifBound("WIDTH", 2)
	g := &hGen{scalars: []Type{TypeNil, TypeBool, TypeInt, TypeString}, width: 2, keyBytes: 1, strBytes: 1, strMin: 1, intBound: 10}
	isList := nondetIntRange(0, 1) == 1
	var nd *hNode
	if isList {
		nd = g.list(1)
	} else {
		nd = g.object(1)
	}
	hAsciiTree(nd)
	hCheckPrefixes(isList, nd.build())
	verifReach("end")
}

// restrict every string and key of a recipe to printable ASCII (quotes, backslashes, brackets included)
func hAsciiTree(n *hNode) {
	if n.kind == TypeString {
		for i := 0; i < len(n.s); i++ {
			verifAssume(verifAnd(n.s[i] >= 0x20, n.s[i] < 0x7f))
		}
	}
	for _, k := range n.keys {
		for i := 0; i < len(k); i++ {
			verifAssume(verifAnd(k[i] >= 0x20, k[i] < 0x7f))
		}
	}
	for _, c := range n.kids {
		hAsciiTree(c)
	}
}

func hCheckPrefixes(isList bool, c any) {
	var s string
	if isList {
		s = c.(List).String()
	} else {
		s = c.(Object).String()
	}
	full, ferr, _ := hParseAny(isList, s)
	verifAssert(full != nil && ferr == nil, "the complete serialised document is accepted")
	for k := 0; k < len(s); k++ {
		pc, perr, pp := hParseAny(isList, s[:k])
		verifAssert(!pp && pc == nil && perr != nil, "every proper prefix of a serialised document is rejected with an error")
	}
}

// deeper documents: fixed two-level skeletons with symbolic scalars
func H_C04_prefixes_nested() {
	a := hAscii(1)
	k := hAscii(1)
	d := nondetInt()
	verifAssume(verifAnd(d >= 0, d < 10))
	switch nondetIntRange(0, 3) {
	case 0:
		hCheckPrefixes(true, NewList(NewList(a, NewObject(k, d)), NewObject(k, NewList(nil, a)), true))
	case 1:
		hCheckPrefixes(false, NewObject(k, NewObject("x", NewList(a), "y", NewObject())))
	case 2:
		hCheckPrefixes(true, NewList(NewList(NewList()), a))
	default:
		hCheckPrefixes(false, NewObject(k, NewList(NewObject(k, a), d)))
	}
	verifReach("end")
}

// a slot of 1..3 bytes whose first byte starts an ill-formed sequence, placed anywhere in a valid document
func H_C04_illformed_utf8() {
	n := nondetIntRange(1, 3)
	slot := hBytesStr(n)
	r, size := utf8.DecodeRuneInString(slot + "A")
	verifAssume(r == utf8.RuneError)
	verifAssume(size == 1) // stray continuation, truncated lead, overlong, surrogate, > F4: the solver picks
	var s string
	isList := true
	switch nondetIntRange(0, 7) {
	case 0:
		s = `["a` + slot + `b"]`
	case 1:
		s = `[1` + slot + `,2]`
	case 2:
		s = `[1, ` + slot + ` 2]`
	case 3:
		s = `[[` + slot + `]]`
	case 4:
		s = `[{"k` + slot + `":1}]`
	case 5:
		isList = false
		s = `{"k` + slot + `":1}`
	case 6:
		isList = false
		s = `{"k":"v` + slot + `"}`
	default:
		isList = false
		s = `{"k":[1,{"q":2` + slot + `}]}`
	}
	c, err, p := hParseAny(isList, s)
	verifAssert(!p, "parsing never panics")
	verifAssert(c == nil && err != nil, "a document containing ill-formed UTF-8 between its root brackets is rejected")
	verifReach("end")
}

// ParseFile(path) = ParseObject(file bytes), or an error if the file cannot be read
func H_C04_parsefile() {
	n := 3
	verifBound("FILEBYTES", n)
	body := hBytesStr(nondetIntRange(0, n))
	var data string
	switch nondetIntRange(0, 2) {
	case 0:
		data = "{" + body
	case 1:
		data = body
	default:
		data = `{"a":[1,"x"],"b":` + body + `}`
	}
	exists := nondetBool()
	path := "/tmp/verif_c04_parsefile.json"
	verifSetFile(path, data, exists)
	var fo Object
	var ferr error
	p := verifCatch(func() { fo, ferr = ParseFile(path) })
	verifAssert(!p, "ParseFile never panics")
	if !exists {
		verifAssert(fo == nil && ferr != nil, "ParseFile of an unreadable path returns an error")
	} else {
		o, err := ParseObject(data)
		verifAssert((fo == nil) == (o == nil) && (ferr == nil) == (err == nil), "ParseFile returns what ParseObject returns for the file's bytes")
		if fo != nil && o != nil {
			verifAssert(hExact(hSnapAny(fo), hSnapAny(o)), "ParseFile returns what ParseObject returns for the file's bytes")
		}
	}
	verifReach("end")
}

// symbolic bytes inside a string literal (value or key): escape sequences of every spelling, complete,
// cut short or malformed, at the end of the literal or followed by more text. The parser must not panic,
// must return exactly one of (container, error), and the same outcome twice.
func H_C04_total_strings() {
	free := 4
	tail := 3
	if verifTier() > 0 {
		free = 5
		tail = 5
	}
	verifBound("STRING_BODY_BYTES", free)
	verifBound("ESCAPE_TAIL_BYTES", tail)
	var body string
	switch nondetIntRange(0, 2) {
	case 0:
		// any printable-ASCII bytes (quotes and backslashes included)
		body = hAscii(nondetIntRange(0, free))
	case 1:
		// a backslash escape followed by arbitrary printable bytes: \u with too few / non-hex digits, \x, \0, unknown letters
		body = "\\" + hAscii(nondetIntRange(0, tail))
	default:
		// a \u escape denoting a surrogate half (not decodable on its own) followed by arbitrary printable bytes:
		// complete pairs, half pairs, a second escape cut short
		d := nondetByte()
		verifAssume(verifOr(verifAnd(d >= '8', d <= '9'), verifOr(verifAnd(d >= 'a', d <= 'f'), verifAnd(d >= 'A', d <= 'F'))))
		h2, h3 := hHexDigitC(nondetIntRange(0, 2)), hHexDigitC(nondetIntRange(0, 2))
		body = "\\u" + string([]byte{'d', d, h2, h3}) + hAscii(nondetIntRange(0, tail))
	}
	var s string
	isList := true
	switch nondetIntRange(0, 2) {
	case 0:
		s = `["` + body + `"]`
	case 1:
		isList = false
		s = `{"` + body + `":1}`
	default:
		isList = false
		s = `{"k":"` + body + `"}`
	}
	c, err, p := hParseAny(isList, s)
	verifAssert(!p, "parsing never panics")
	verifAssert((c == nil) != (err == nil), "parsing returns either a container with a nil error or no container with an error")
	c2, err2, p2 := hParseAny(isList, s)
	verifAssert(!p2 && (c2 == nil) == (c == nil) && (err2 == nil) == (err == nil), "the same input gives the same outcome")
	if c != nil && c2 != nil {
		verifAssert(hExact(hSnapAny(c), hSnapAny(c2)), "the same input gives the same container")
	}
	verifReach("end")
}

// the same input always gives the same outcome — also when other documents (rejected ones with undecodable
// escapes included) were parsed in between
func H_C04_same_outcome_in_any_history() {
	a := hAscii(1)
	docs := []string{`["x` + a + `y"]`, `{"k` + a + `":"v` + a + `"}`, `[1,"` + a + `",[true]]`}
	bad := []string{`["p\q"]`, `["\ud800"]`, `{"a":"\x"}`, `["abc`, `{"k":"v`, `[1,`, `["zz\u12"]`}
	d := docs[nondetIntRange(0, len(docs)-1)]
	isList := d[0] == '['
	c1, e1, p1 := hParseAny(isList, d)
	verifAssert(!p1, "parsing never panics")
	b := bad[nondetIntRange(0, len(bad)-1)]
	_, _, pb := hParseAny(b[0] == '[', b)
	verifAssert(!pb, "parsing never panics")
	d2 := docs[nondetIntRange(0, len(docs)-1)]
	_, _, p3 := hParseAny(d2[0] == '[', d2)
	verifAssert(!p3, "parsing never panics")
	c2, e2, p2 := hParseAny(isList, d)
	verifAssert(!p2 && (c1 == nil) == (c2 == nil) && (e1 == nil) == (e2 == nil), "the same input gives the same outcome")
	if c1 != nil && c2 != nil {
		verifAssert(hExact(hSnapAny(c1), hSnapAny(c2)), "the same input gives the same container, whatever was parsed in between")
	}
	verifReach("end")
}

// ParseFile on files with arbitrary bytes (ill-formed UTF-8 included) before and after the root object
func H_C04_parsefile_outer_bytes() {
	pre := hBytesStr(nondetIntRange(0, 1))
	post := hBytesStr(nondetIntRange(0, 1))
	for i := 0; i < len(pre); i++ {
		verifAssume(pre[i] != '{')
	}
	data := pre + `{"a":1}` + post
	path := "/tmp/verif_c04_parsefile2.json"
	verifSetFile(path, data, true)
	var fo Object
	var ferr error
	p := verifCatch(func() { fo, ferr = ParseFile(path) })
	verifAssert(!p, "ParseFile never panics")
	o, err := ParseObject(data)
	verifAssert((fo == nil) == (o == nil) && (ferr == nil) == (err == nil), "ParseFile returns what ParseObject returns for the file's bytes")
	verifReach("end")
}

// valid documents with repeated keys of every kind combination: parsed without panic, exactly one of
// (container, error)
func H_C04_total_duplicate_keys() {
	vals := []string{`1`, `"s"`, `null`, `{}`, `{"q":2}`, `[]`, `[3]`, `tru`}
	a := nondetIntRange(0, len(vals)-1)
	b := nondetIntRange(0, len(vals)-1)
	k := hAscii(1)
	verifAssume(verifAnd(k[0] != '"', k[0] != '\\'))
	text := `{"` + k + `":` + vals[a] + `,"` + k + `":` + vals[b] + `}`
	if nondetIntRange(0, 1) == 1 {
		text = `[` + text + `,` + text + `]`
	}
	c, err, p := hParseAny(text[0] == '[', text)
	verifAssert(!p, "parsing never panics")
	verifAssert((c == nil) != (err == nil), "parsing returns either a container with a nil error or no container with an error")
	verifReach("end")
}
