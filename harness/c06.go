package anytype

// C06 — Object is a string-keyed map with reference semantics under any program.

type mObj struct {
	keys []string
	vals []mval
}

func (m *mObj) find(k string) int {
	for i := range m.keys {
		if m.keys[i] == k {
			return i
		}
	}
	return -1
}

func (m *mObj) set(k string, v mval) {
	if i := m.find(k); i >= 0 {
		m.vals[i] = v
		return
	}
	m.keys = append(m.keys, k)
	m.vals = append(m.vals, v)
}

func (m *mObj) unset(k string) {
	if i := m.find(k); i >= 0 {
		nk := make([]string, 0, len(m.keys))
		nv := make([]mval, 0, len(m.keys))
		for j := range m.keys {
			if j != i {
				nk = append(nk, m.keys[j])
				nv = append(nv, m.vals[j])
			}
		}
		m.keys, m.vals = nk, nv
	}
}

func (m *mObj) clone() *mObj {
	c := &mObj{keys: make([]string, len(m.keys)), vals: make([]mval, len(m.vals))}
	copy(c.keys, m.keys)
	copy(c.vals, m.vals)
	return c
}

type hOHeap struct {
	objs    []Object
	models  []*mObj
	inner   List // a live list stored by reference
	innerM  []mval
	inner2  List // a second live list whose content the solver may make equal to inner's (distinct identity, possibly Equals)
	inner2M []mval
	innerO  Object // a live (empty) object stored by reference
	// Keys()/Values() lists taken from the pre-state object: later object operations must not change them
	exported  []List
	exportedM []mval
	deep      []bool // compare container values of this object deeply (Merge results) instead of by identity
}

func (h *hOHeap) add(o Object, m *mObj, deep bool) int {
	h.objs = append(h.objs, o)
	h.models = append(h.models, m)
	h.deep = append(h.deep, deep)
	return len(h.objs) - 1
}

func hSameValue(got mval, want mval, deep bool, gotV any) bool {
	if deep && (want.kind == TypeList || want.kind == TypeObject) {
		if got.kind != want.kind {
			return false
		}
		return hRefEq(hSnapAny(gotV), hSnapAny(want.ref))
	}
	return hSameShallow(got, want)
}

func (h *hOHeap) check(what string) {
	for i, o := range h.objs {
		m := h.models[i]
		ok := o.Count() == len(m.keys)
		ok = ok && o.Empty() == (len(m.keys) == 0)
		for j, k := range m.keys {
			if !o.KeyExists(k) {
				ok = false
				continue
			}
			v := o.Get(k)
			ok = verifAnd(ok, hSameValue(hSnapValue(o.TypeOf(k), v, false), m.vals[j], h.deep[i], v))
		}
		verifAssert(ok, what)
	}
	verifAssert(hSameSlots(mval{elem: h.innerM}, hSnapList(h.inner, false)), "object operations never change a list stored by reference")
	verifAssert(hSameSlots(mval{elem: h.inner2M}, hSnapList(h.inner2, false)), "object operations never change a list stored by reference")
	verifAssert(h.innerO.Count() == 0, "object operations never change an object stored by reference")
	for i, l := range h.exported {
		verifAssert(hSameSlots(h.exportedM[i], hSnapList(l, false)), "a list returned earlier by Keys()/Values() keeps showing the field set of that time (scalars are held by value)")
	}
}

// a key: empty or one arbitrary byte ('.', '#', '"', non-ASCII all included)
// To keep the case split linear, the empty key is offered by one global mode per path: in that
// mode the 1st and 3rd generated keys are "".
var hKeyMode, hKeyCalls int

func hKey() string {
	hKeyCalls++
	if hKeyMode == 1 && (hKeyCalls == 1 || hKeyCalls == 3) {
		return ""
	}
	return hBytesStr(1)
}

// value: an operation argument (full domain); preValue: a pre-state field (int, nil or the first list —
// the pre-state only has to offer one container to be overwritten, the arguments bring the others).
func (h *hOHeap) preValue() (any, mval) { return h.valueOf(nondetIntRange(0, 2)) }
func (h *hOHeap) value() (any, mval)    { return h.valueOf(nondetIntRange(0, 4)) }

func (h *hOHeap) valueOf(c int) (any, mval) {
	switch c {
	case 0:
		v := nondetInt()
		return v, mval{kind: TypeInt, i: v}
	case 1:
		return nil, mval{kind: TypeNil}
	case 2:
		return h.inner, mval{kind: TypeList, ref: h.inner}
	case 3:
		return h.inner2, mval{kind: TypeList, ref: h.inner2}
	default:
		return h.innerO, mval{kind: TypeObject, ref: h.innerO}
	}
}

func hMkOHeap(maxN int) *hOHeap {
	h := &hOHeap{}
	hKeyCalls = 0
	hKeyMode = nondetIntRange(0, 1)
	iv := nondetInt()
	h.inner = NewList(iv)
	h.innerM = []mval{{kind: TypeInt, i: iv}}
	iv2 := nondetInt()
	h.inner2 = NewList(iv2)
	h.inner2M = []mval{{kind: TypeInt, i: iv2}}
	h.innerO = NewObject()
	n := nondetIntRange(0, maxN)
	o := NewObject()
	m := &mObj{}
	for i := 0; i < n; i++ {
		k := hKey()
		for _, p := range m.keys {
			verifAssume(k != p)
		}
		v, mv := h.preValue()
		o.Set(k, v)
		m.keys = append(m.keys, k)
		m.vals = append(m.vals, mv)
	}
	h.add(o, m, false)
	// an argument object P with 0..1 fields whose key may coincide with a key of O
	p := NewObject()
	pm := &mObj{}
	if nondetIntRange(0, 1) == 1 {
		k := hKey()
		v, mv := h.preValue()
		p.Set(k, v)
		pm.set(k, mv)
	}
	h.add(p, pm, false)
	return h
}

const (
	ooSet1 = iota
	ooSet2
	ooSetOdd
	ooSetBadKey
	ooUnset1
	ooUnset2
	ooClear
	ooMerge
	ooPluck1
	ooPluck2
	ooGet
	ooTyped
	ooTypeOfExists
	ooKeysValues
	ooDict
	ooContains
	ooKeyOf
	ooNewObject
	hNumObjOps
)

// a value with a String method is still not a string
type hStringerKey struct{ n int }

func (k hStringerKey) String() string { return "k" }

func (h *hOHeap) apply(t int, op int) {
	o := h.objs[t]
	m := h.models[t]
	switch op {
	case ooSet1:
		k := hKey()
		v, mv := h.value()
		ret := o.Set(k, v)
		verifAssert(ret == o, "Set returns the object")
		m.set(k, mv)
	case ooSet2:
		k1, k2 := hKey(), hKey() // may be equal: the last pair wins
		v1, m1 := h.value()
		v2, m2 := h.value()
		o.Set(k1, v1, k2, v2)
		m.set(k1, m1)
		m.set(k2, m2)
	case ooSetOdd:
		p := verifCatch(func() { o.Set(hKey(), nondetInt(), hKey()) })
		verifAssert(p, "Set panics on an odd number of arguments")
	case ooSetBadKey:
		var bad any
		switch nondetIntRange(0, 8) {
		case 0:
			bad = nondetInt()
		case 1:
			bad = hFiniteFloat()
		case 2:
			bad = nondetBool()
		case 3:
			bad = nil
		case 4:
			bad = NewList("k") // containers print as text, but are not strings
		case 5:
			bad = NewObject("k", 1)
		case 6:
			bad = []byte("k")
		case 7:
			bad = hStringerKey{7}
		default:
			ks := "k"
			bad = &ks
		}
		p := verifCatch(func() { o.Set(bad, nondetInt()) })
		verifAssert(p, "Set panics on a non-string key")
	case ooUnset1:
		k := hKey()
		ret := o.Unset(k)
		verifAssert(ret == o, "Unset returns the object")
		m.unset(k)
	case ooUnset2:
		k1, k2 := hKey(), hKey()
		o.Unset(k1, k2)
		m.unset(k1)
		m.unset(k2)
	case ooClear:
		o.Clear()
		m.keys, m.vals = nil, nil
	case ooMerge:
		a := nondetIntRange(0, len(h.objs)-1)
		r := o.Merge(h.objs[a])
		rm := m.clone()
		am := h.models[a]
		for i := range am.keys {
			rm.set(am.keys[i], am.vals[i])
		}
		h.add(r, rm, true)
	case ooPluck1:
		k := hKey()
		var r Object
		p := verifCatch(func() { r = o.Pluck(k) })
		i := m.find(k)
		verifAssert(p == (i < 0), "Pluck panics exactly when a requested key is absent")
		if !p {
			h.add(r, &mObj{keys: []string{k}, vals: []mval{m.vals[i]}}, false)
		}
	case ooPluck2:
		k1, k2 := hKey(), hKey()
		var r Object
		p := verifCatch(func() { r = o.Pluck(k1, k2) })
		i1, i2 := m.find(k1), m.find(k2)
		verifAssert(p == (i1 < 0 || i2 < 0), "Pluck panics exactly when a requested key is absent")
		if !p {
			rm := &mObj{}
			rm.set(k1, m.vals[i1])
			rm.set(k2, m.vals[i2])
			h.add(r, rm, false)
		}
	case ooGet:
		k := hKey()
		var got any
		p := verifCatch(func() { got = o.Get(k) })
		i := m.find(k)
		verifAssert(p == (i < 0), "Get panics exactly when the key is absent")
		if !p {
			verifAssert(hSameShallow(hSnapValue(m.vals[i].kind, got, false), m.vals[i]), "Get returns the stored value (the identical container)")
		}
	case ooTyped:
		k := hKey()
		i := m.find(k)
		kind := TypeUndefined
		if i >= 0 {
			kind = m.vals[i].kind
		}
		pi := verifCatch(func() { o.GetInt(k) })
		ps := verifCatch(func() { o.GetString(k) })
		pl := verifCatch(func() { o.GetList(k) })
		po := verifCatch(func() { o.GetObject(k) })
		pb := verifCatch(func() { o.GetBool(k) })
		pf := verifCatch(func() { o.GetFloat(k) })
		verifAssert(pi == (kind != TypeInt) && ps == (kind != TypeString) && pl == (kind != TypeList) && po == (kind != TypeObject) && pb && pf, "a typed getter panics exactly when the key is absent or of another kind")
	case ooTypeOfExists:
		k := hKey()
		i := m.find(k)
		if i < 0 {
			verifAssert(o.TypeOf(k) == TypeUndefined && !o.KeyExists(k), "an absent key is Undefined and does not exist")
		} else {
			verifAssert(o.TypeOf(k) == m.vals[i].kind && o.KeyExists(k), "TypeOf/KeyExists describe the stored field (a stored nil exists)")
		}
	case ooKeysValues:
		ks, vs := o.Keys(), o.Values()
		ok := ks.Count() == len(m.keys) && vs.Count() == len(m.keys) && ks.AllStrings()
		for i, k := range m.keys {
			ok = ok && ks.Contains(k)
			cnt, want := 0, 0
			for j := 0; j < vs.Count(); j++ {
				cnt += verifIteInt(hSameShallow(hSnapValue(vs.TypeOf(j), vs.Get(j), false), m.vals[i]), 1, 0)
			}
			for j := range m.vals {
				want += verifIteInt(hSameShallow(m.vals[j], m.vals[i]), 1, 0)
			}
			ok = verifAnd(ok, cnt == want)
		}
		verifAssert(ok, "Keys and Values describe exactly the field set")
	case ooDict:
		d := o.Dict()
		ok := len(d) == len(m.keys)
		for i, k := range m.keys {
			v, has := d[k]
			ok = verifAnd(ok && has, hSameShallow(hSnapValue(m.vals[i].kind, v, false), m.vals[i]))
		}
		verifAssert(ok, "Dict describes exactly the field set")
	case ooContains:
		v, mv := h.value()
		want := false
		for i := range m.vals {
			want = verifOr(want, hSameShallow(m.vals[i], mv))
		}
		verifAssert(o.Contains(v) == want, "Contains iff some field holds the same value / identical container")
	case ooKeyOf:
		v, mv := h.value()
		want := false
		for i := range m.vals {
			want = verifOr(want, hSameShallow(m.vals[i], mv))
		}
		var k string
		p := verifCatch(func() { k = o.KeyOf(v) })
		verifAssert(p == !want, "KeyOf panics exactly when no field holds the value")
		if !p {
			i := m.find(k)
			verifAssert(i >= 0, "KeyOf returns a key of the object")
			if i >= 0 {
				verifAssert(hSameShallow(m.vals[i], mv), "KeyOf returns a key that holds the value")
			}
		}
	case ooNewObject:
		k1, k2 := hKey(), hKey()
		v1, m1 := h.value()
		v2, m2 := h.value()
		r := NewObject(k1, v1, k2, v2)
		rm := &mObj{}
		rm.set(k1, m1)
		rm.set(k2, m2)
		h.add(r, rm, false)
	}
}

func H_C06_step() {
	verifBound("OBJN", 2)
	verifBound("KEYBYTES", 1)
	h := hMkOHeap(2)
	h.check("the pre-state matches its model (harness self-check)")
	h.apply(0, nondetIntRange(0, hNumObjOps-1))
	h.check("after one operation every live object shows what the map model predicts")
	verifReach("end")
}

func H_C06_step2() {
	verifBound("OPS", 2)
	h := hMkOHeap(1)
	for _, l := range []List{h.objs[0].Values(), h.objs[0].Keys()} {
		h.exported = append(h.exported, l)
		h.exportedM = append(h.exportedM, hSnapList(l, false))
	}
	op := []int{ooSet1, ooSet2, ooUnset1, ooClear, ooMerge, ooPluck1, ooNewObject}[nondetIntRange(0, 6)]
	h.apply(0, op)
	t := nondetIntRange(0, len(h.objs)-1)
	op2 := []int{ooSet1, ooUnset1, ooClear, ooMerge}[nondetIntRange(0, 3)]
	h.apply(t, op2)
	h.check("after two operations every live object shows what the map model predicts")
	verifReach("end")
}

// overwriting a field with a value that compares equal to the old one without being the same (a float with
// the same numeric value and another bit pattern, e.g. -0.0 over 0.0): the last pair still wins
func H_C06_overwrite_equal_scalar() {
	f, g := hFiniteFloat(), hFiniteFloat()
	k := hBytesStr(nondetIntRange(0, 1))
	o := NewObject(k, f)
	switch nondetIntRange(0, 2) {
	case 0:
		o.Set(k, g)
	case 1:
		o.Set(k, 1, k, g)
	default:
		o = o.Merge(NewObject(k, g))
	}
	verifAssert(o.Count() == 1 && o.TypeOf(k) == TypeFloat && verifFloatBits(o.GetFloat(k)) == verifFloatBits(g), "Set overwrites with the last pair winning / Merge prefers the argument's value (the value written, bit for bit)")
	verifReach("end")
}

// keys of several bytes, any of which may be a path character, a quote or a non-ASCII byte: a key is an
// opaque string for Set/Get/KeyExists/Unset/Pluck/KeyOf, never a path
func H_C06_keys_of_several_bytes() {
	verifBound("KEYBYTES", 2)
	k := hBytesStr(2)
	x := nondetInt()
	inner := NewObject("x", 1)
	o := NewObject("a", 1, "n", inner)
	// the variadic mutators with no argument at all change nothing
	var none []string
	verifAssert(o.Set() == o && o.Unset() == o && o.Unset(none...) == o && o.Count() == 2 && o.Pluck().Count() == 0, "Set and Unset without arguments leave the object as it was; Pluck without keys is empty")
	ret := o.Set(k, x)
	verifAssert(ret == o, "Set returns the object")
	verifAssert(o.Count() == 3 && o.KeyExists(k) && o.TypeOf(k) == TypeInt && o.GetInt(k) == x && o.GetInt("a") == 1 && o.Get("n") == any(inner) && inner.Count() == 1,
		"after one operation every live object shows what the map model predicts")
	ks := o.Keys()
	found := 0
	for i := 0; i < ks.Count(); i++ {
		if ks.GetString(i) == k {
			found++
		}
	}
	verifAssert(ks.Count() == 3 && found == 1 && len(o.Dict()) == 3 && o.Dict()[k] == any(x), "Keys/Values/Dict/Count always describe the same field set")
	pl := o.Pluck(k)
	verifAssert(pl.Count() == 1 && pl.GetInt(k) == x, "Pluck keeps exactly the requested keys")
	o.Unset(k)
	verifAssert(o.Count() == 2 && !o.KeyExists(k) && o.KeyExists("a") && o.Get("n") == any(inner), "after two operations every live object shows what the map model predicts")
	verifReach("end")
}

// Merge takes the argument's containers by reference (they are values "held by reference" like any other), whatever
// the receiver holds — no field, another field, or a field under the same key
func H_C06_merge_argument_by_reference() {
	inL, inO := NewList(nondetInt()), NewObject("p", 1)
	arg := NewObject("l", inL, "o", inO, "n", 5)
	var recv Object
	switch nondetIntRange(0, 3) {
	case 0:
		recv = NewObject()
	case 1:
		recv = NewObject("x", 1)
	case 2:
		recv = NewObject("l", NewList("own"), "x", NewList())
	default:
		recv = NewObject("a", 1).Unset("a") // emptied, not born empty
	}
	nrecv := recv.Count()
	r := recv.Merge(arg)
	verifAssert(r != recv && r != arg, "Merge returns a new object")
	verifAssert(r.Get("l") == any(inL) && r.Get("o") == any(inO), "the result holds the argument's containers themselves")
	verifAssert(r.Contains(inL) && r.KeyOf(inO) == "o", "Contains / KeyOf find the argument's containers in the result")
	inL.Add("later")
	inO.Set("q", 2)
	verifAssert(r.GetList("l").Count() == 2 && r.GetObject("o").Count() == 2, "a change made through the argument's container is seen through the result")
	verifAssert(arg.Count() == 3 && recv.Count() == nrecv, "Merge leaves both operands' field sets alone")
	verifReach("end")
}
